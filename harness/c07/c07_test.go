// Package c07 decides property C07: no input file can crash, hang or exhaust the reader.
// A structure-aware mutation fuzzer (rapid-generated plain-data mutation lists over corpus files, library-written
// files and synthetic superblock prefixes) drives isolated worker processes; see DESIGN.md section 5, C07.
package c07

import (
	"encoding/json"
	"fmt"
	"os"
	"path/filepath"
	"sort"
	"strconv"
	"strings"
	"sync"
	"sync/atomic"
	"testing"
	"time"

	"github.com/scigolib/hdf5/verif/vt"
	"pgregory.net/rapid"
)

const (
	prop = "C07"
	sub  = "mutate"
)

// budgets (CPU seconds of the worker on one case / wall seconds)
var (
	fastBudget    = budget{cpu: 20, wall: 20}   // first attempt, in a shared persistent worker
	aloneBudget   = budget{cpu: 40, wall: 60}   // re-run alone in a fresh worker
	aloneWallMax  = 300.0                       // a starved re-run is extended up to here until it has had its CPU
	earlyHangCPU  = 0.75                        // after this much CPU a slow case is sampled; a *known* hang signature ends the attempt
	maxWalked     = 100000                      // objects File.Walk may report for a file of <= 256 KiB (failure kind "blowup")
	minimizeEvals = 60
	minimizeWall  = 90 * time.Second // minimisation is a convenience: time-boxed, the unminimised case is a valid replay too
)

// ---- known findings: signature -> id, read from known_findings.json (the "match" field carries the signatures) -------------

var (
	knownOnce sync.Once
	knownSig    map[string]string
	knownWhat   map[string]string
	knownAnchor map[string]bool // "kind|function" anchors of hang / death-exhaust findings
)

func loadKnown() {
	knownOnce.Do(func() {
		knownSig, knownWhat, knownAnchor = map[string]string{}, map[string]string{}, map[string]bool{}
		for _, f := range vt.OpenFindings(prop) {
			knownWhat[f.ID] = f.What
			i := strings.Index(f.Match, "signatures:")
			if i < 0 {
				continue
			}
			for _, s := range strings.Split(f.Match[i+len("signatures:"):], ";;") {
				s = strings.TrimSpace(s)
				if p := strings.SplitN(s, "|", 3); len(p) == 3 && strings.HasPrefix(p[1], "subset-of:") {
					ss := stackSet{id: f.ID, kind: p[0], set: map[string]bool{}}
					for _, fn := range strings.Split(strings.TrimPrefix(p[1], "subset-of:"), "+") {
						ss.set[fn] = true
					}
					knownStackSets = append(knownStackSets, ss)
					continue
				}
				if s != "" {
					knownSig[s] = f.ID
					if p := strings.SplitN(s, "|", 3); len(p) == 3 && (p[0] == "hang" || p[0] == "death-exhaust") {
						knownAnchor[p[0]+"|"+p[1]] = true
					}
				}
			}
		}
	})
}

func knownID(f Failure) string {
	loadKnown()
	if id := knownSig[f.Sig()]; id != "" {
		return id
	}
	if f.Kind == "death-stack" || f.Kind == "death-exhaust" || f.Kind == "hang" {
		// "death-stack|subset-of:A+B+C|stack overflow": every function of the recursion cycle is one of A, B, C
		for _, ss := range knownStackSets {
			ok := ss.kind == f.Kind
			for _, fn := range strings.Split(f.Fn, "+") {
				if !ss.set[fn] {
					ok = false
					break
				}
			}
			if ok {
				return ss.id
			}
		}
	}
	return ""
}

type stackSet struct {
	id   string
	kind string
	set  map[string]bool
}

var knownStackSets []stackSet

// ---- engine ----------------------------------------------------------------------------------------

type engine struct {
	reg  *registry
	dir  string
	excl sync.RWMutex // a confirmation re-run holds it exclusively: nothing else of this shard runs meanwhile
	seq  int64
}

func newEngine() *engine {
	e := &engine{reg: loadRegistry(), dir: filepath.Join(vt.GetEnv().Scratch, "c07")}
	_ = os.MkdirAll(e.dir, 0o755)
	return e
}

func (e *engine) image(c Case) ([]byte, int, error) {
	b, ok := e.reg.bases[c.Base]
	if !ok {
		return nil, 0, fmt.Errorf("unknown base file %q", c.Base)
	}
	img, inside := apply(b.Data, c)
	return img, inside, nil
}

func failuresOf(at attempt) []Failure {
	var out []Failure
	if at.resp != nil {
		for _, p := range at.resp.Panics {
			f := Failure{Kind: "panic", Op: p.Op, Msg: p.Msg, Class: msgClass(p.Msg), Fn: "?"}
			for _, fr := range p.Frames {
				f.Frames = append(f.Frames, short(fr))
			}
			if len(f.Frames) > 0 {
				f.Fn = fnOf(f.Frames[0])
				f.Loc = locOf(f.Frames[0])
			}
			out = append(out, f)
		}
		if at.resp.Walked > maxWalked {
			// the listing itself is out of proportion: a file of <= 256 KiB holds at most ~16 000 object headers
			out = append(out, Failure{Kind: "blowup", Fn: "hdf5.(*File).Walk", Class: "more than 100000 objects listed", Op: "File.Walk",
				Msg: fmt.Sprintf("%d objects", at.resp.Walked)})
		}
		for _, p := range at.resp.Big {
			if p.Op == "FilterPipelineMessage.ApplyFilters" {
				// A direct decode call has no file and no chunk size to be proportional to (a 100 KiB zlib stream of 96 MiB of
				// zeros is also what a legitimate all-zero chunk looks like): the memory clause of the property applies to the
				// same streams embedded in a file, where the chunk size bounds the output.
				continue
			}
			f := Failure{Kind: "bigalloc", Op: p.Op, Msg: p.Msg, Class: ">=64MiB block", Fn: "?"}
			for _, fr := range p.Frames {
				f.Frames = append(f.Frames, short(fr))
			}
			if len(f.Frames) > 0 {
				f.Fn = fnOf(f.Frames[0])
				f.Loc = locOf(f.Frames[0])
			}
			out = append(out, f)
		}
		return out
	}
	if at.died {
		return []Failure{classifyDeath(at.stderr)}
	}
	return nil
}

type fastResult struct {
	fails    []Failure // failures with a signature (panics, death, early-known hang)
	timedOut bool      // budget exhausted, needs the alone re-run
	resp     *Resp
	cpu      float64
	slowOK   bool // timed out in the shared worker but terminated without failure when re-run alone
}

// evalFast runs the case in the shared persistent worker.
func (e *engine) evalFast(w *worker, img []byte, filt []FSpec) fastResult {
	w.filt = filt
	path := filepath.Join(e.dir, fmt.Sprintf("w%d.h5", w.id))
	if err := os.WriteFile(path, img, 0o644); err != nil {
		return fastResult{}
	}
	var early Failure
	stopEarly := func() bool {
		_, rep := reportedSigs.Load(early.Sig())
		return knownID(early) != "" || rep // listed, or this very signature was confirmed and reported before
	}
	at := w.exec1(path, fastBudget, earlyHangCPU, func(s [][]string) bool {
		early = hangFailure(s)
		return stopEarly()
	})
	r := fastResult{resp: at.resp, cpu: at.cpu}
	if at.timedOut {
		if early.Kind == "hang" && stopEarly() {
			r.fails = []Failure{early}
		} else {
			r.timedOut = true
		}
		return r
	}
	r.fails = failuresOf(at)
	return r
}

// evalAlone runs the case in a fresh worker of its own with the generous budget; a case that does not terminate
// after having consumed its CPU budget is a confirmed hang. inconclusive = the re-run was starved of CPU.
func (e *engine) evalAlone(img []byte, filt []FSpec) (fails []Failure, inconclusive string) {
	w := newWorker(e.dir)
	w.filt = filt
	defer w.stop()
	path := filepath.Join(e.dir, fmt.Sprintf("alone%d-%d.h5", w.id, atomic.AddInt64(&e.seq, 1)))
	if err := os.WriteFile(path, img, 0o644); err != nil {
		return nil, "cannot write scratch file: " + err.Error()
	}
	defer os.Remove(path)
	var early Failure
	at := w.exec1(path, budget{cpu: aloneBudget.cpu, wall: aloneWallMax}, earlyHangCPU, func(s [][]string) bool {
		early = hangFailure(s)
		return knownID(early) != "" // a listed non-termination is not waited for; anything else gets the full budget
	})
	if at.timedOut && early.Kind == "hang" && knownID(early) != "" {
		return []Failure{early}, ""
	}
	if at.timedOut {
		if at.cpu >= aloneBudget.cpu || at.cpu < 1 {
			f := hangFailure(at.samples)
			if at.cpu < 1 {
				f.Class = "blocked"
			}
			return []Failure{f}, ""
		}
		return nil, fmt.Sprintf("re-run got only %.1f s of CPU in %.0f s of wall time", at.cpu, at.wallS)
	}
	return failuresOf(at), ""
}

// ---- per-case bookkeeping ----------------------------------------------------------------------------

type stats struct {
	mu          sync.Mutex
	sigCount    map[string]int
	sigSample   map[string]any
	sigFailure  map[string]Failure
	violSigs    map[string]bool
	unconfirmed int
	inconcl     int
	slow        int
}

func newStats() *stats {
	return &stats{sigCount: map[string]int{}, sigSample: map[string]any{}, sigFailure: map[string]Failure{}, violSigs: map[string]bool{}}
}

func nMuts(c any) int {
	if cc, ok := c.(Case); ok {
		return len(cc.Muts)
	}
	return 0
}

func (s *stats) seen(f Failure, c any) {
	s.mu.Lock()
	defer s.mu.Unlock()
	sg := f.Sig()
	s.sigCount[sg]++
	if old, ok := s.sigSample[sg]; !ok || nMuts(c) < nMuts(old) {
		s.sigSample[sg] = c
		s.sigFailure[sg] = f
	}
}

func detail(f Failure, c any) string {
	base := ""
	if cc, ok := c.(Case); ok {
		base = " base=" + cc.Base
	}
	return fmt.Sprintf("%s in %s (%s) op=%s msg=%q frames=%s%s", f.Kind, f.Fn, f.Class, f.Op, f.Msg, strings.Join(f.Frames, " < "), base)
}

func (e *engine) labels(c Case, img []byte, inside int) (bool, []string) {
	b := e.reg.bases[c.Base]
	lab := map[string]bool{}
	switch {
	case strings.HasPrefix(c.Base, "corpus/"):
		lab["base=corpus"] = true
	case strings.HasPrefix(c.Base, "gen/"):
		lab["base=library-written"] = true
	default:
		lab["base=raw-prefix"] = true
		lab["mut=arbitrary-tail"] = true
	}
	for _, m := range c.Muts {
		lab["mut="+m.K] = true
		if m.VK != "" {
			lab["value="+m.VK] = true
		}
		if m.At != "" {
			k := m.At
			if i := strings.LastIndexByte(k, '+'); i > 0 {
				k = k[:i]
			}
			lab["hit="+k] = true
		} else if b != nil && c.Tail == "" {
			lab["hit="+b.structAt(m.Off)] = true
		}
		if m.K == "set" && (m.VK == "self" || m.VK == "other" || m.VK == "other+8" || strings.HasPrefix(m.VK, "redirect-")) {
			lab["self-or-cross-reference"] = true
		}
	}
	n := len(c.Muts)
	if n > 4 {
		n = 4
	}
	lab["nmuts="+strconv.Itoa(n)] = true
	nt := len(img) >= 8 && string(img[:8]) == string(hdfSig) && (inside >= 1 || c.Tail != "")
	var out []string
	for k := range lab {
		out = append(out, k)
	}
	sort.Strings(out)
	return nt, out
}

// process runs one file case end to end and returns the unlisted (violating) failures, already confirmed alone.
func (e *engine) process(w *worker, c Case, st *stats, rec *vt.Rec, intact bool) (viol []Failure, fr fastResult) {
	img, inside, err := e.image(c)
	if err != nil {
		rec.SkipCase()
		return nil, fr
	}
	nt, labels := e.labels(c, img, inside)
	if intact {
		nt, labels = false, []string{"intact-base-file"}
	}
	return e.processImg(w, sub, c, img, nil, nt, labels, st, rec)
}

// processImg is the common path of all sub-checks: run in the shared worker, book known findings, re-run anything
// unlisted (or slow) alone in a fresh worker.
func (e *engine) processImg(w *worker, subName string, c any, img []byte, filt []FSpec, nt bool, labels []string, st *stats, rec *vt.Rec) (viol []Failure, fr fastResult) {
	rec.Case(subName, c, nt, labels...)
	e.excl.RLock()
	fr = e.evalFast(w, img, filt)
	e.excl.RUnlock()

	pending := fr.timedOut
	outcome := "outcome=value-or-error"
	if fr.resp != nil && fr.resp.OpenErr != "" {
		outcome = "outcome=open-error"
	}
	if fr.resp != nil && fr.resp.AllocMB >= 256 {
		rec.Label(subName, "allocated>=256MiB-without-failure", 1)
	}
	for _, f := range fr.fails {
		st.seen(f, c)
		outcome = "outcome=" + f.Kind
		if id := knownID(f); id != "" {
			rec.KnownHit(id, knownWhat[id], c)
			rec.Label(subName, "known:"+id+":"+f.Sig(), 1)
		} else {
			pending = true
		}
	}
	if fr.timedOut {
		outcome = "outcome=slow-or-hang"
	}
	rec.Label(subName, outcome, 1)
	if os.Getenv("VERIF_C07_HARVEST") == "1" && !fr.timedOut {
		return nil, fr // development aid: collect signatures (VERIF_C07_DUMP) without confirming / minimising
	}
	if !pending {
		return nil, fr
	}
	if !fr.timedOut {
		// every unlisted signature of this case has been confirmed, minimised and reported already: no second confirmation
		repeat := true
		for _, f := range fr.fails {
			if _, done := reportedSigs.Load(f.Sig()); knownID(f) == "" && !done {
				repeat = false
			}
		}
		if repeat {
			rec.Label(subName, "repeat-of-reported-violation", 1)
			return nil, fr
		}
	}
	// anything unlisted (or a timeout) is re-run alone in a fresh worker before it counts
	e.excl.Lock()
	fails, inconcl := e.evalAlone(img, filt)
	e.excl.Unlock()
	if inconcl != "" {
		st.mu.Lock()
		st.inconcl++
		st.mu.Unlock()
		rec.Note("inconclusive re-run: %s", inconcl)
		return nil, fr
	}
	if fr.timedOut && len(fails) == 0 {
		st.mu.Lock()
		st.slow++
		st.mu.Unlock()
		rec.Label(subName, "slow-case-terminated-on-re-run", 1)
		fr.slowOK = true
	}
	reproduced := false
	for _, f := range fails {
		if fr.timedOut {
			st.seen(f, c)
		}
		if id := knownID(f); id != "" {
			if fr.timedOut {
				rec.KnownHit(id, knownWhat[id], c)
				rec.Label(subName, "known:"+id+":"+f.Sig(), 1)
			}
			continue
		}
		reproduced = true
		if os.Getenv("VERIF_C07_HARVEST") != "1" {
			viol = append(viol, f)
		}
	}
	if !reproduced && !fr.timedOut {
		st.mu.Lock()
		st.unconfirmed++
		st.mu.Unlock()
		rec.Label(subName, "failure-not-reproduced-in-fresh-worker", 1)
	}
	return viol, fr
}

// minimize removes mutations / shortens byte strings while the same signature keeps appearing (run alone each time).
func (e *engine) minimize(c Case, sig string) Case {
	evals := 0
	limit := minimizeEvals
	if strings.HasPrefix(sig, "hang") {
		limit = 4
	}
	t0 := time.Now()
	still := func(cc Case) bool {
		if evals >= limit || time.Since(t0) > minimizeWall {
			return false
		}
		evals++
		img, _, err := e.image(cc)
		if err != nil {
			return false
		}
		fails, _ := e.evalAlone(img, nil)
		for _, f := range fails {
			if f.Sig() == sig {
				return true
			}
		}
		return false
	}
	for changed := true; changed; {
		changed = false
		for i := 0; i < len(c.Muts); i++ {
			cc := c
			cc.Muts = append(append([]Mut(nil), c.Muts[:i]...), c.Muts[i+1:]...)
			if still(cc) {
				c, changed = cc, true
				i--
			}
		}
	}
	for i := range c.Muts {
		m := c.Muts[i]
		if (m.K == "bytes" || m.K == "ins") && len(m.B) > 2 {
			for len(m.B) > 2 {
				cc := c
				cc.Muts = append([]Mut(nil), c.Muts...)
				m2 := m
				m2.B = m.B[:len(m.B)-2]
				cc.Muts[i] = m2
				if !still(cc) {
					break
				}
				c, m = cc, m2
			}
		}
	}
	for len(c.Tail) > 2 {
		cc := c
		cc.Tail = c.Tail[:len(c.Tail)/2/2*2]
		if !still(cc) {
			break
		}
		c = cc
	}
	return c
}

// reportedSigs: signatures already confirmed, minimised and reported as violations by this process (any sub-check)
var reportedSigs sync.Map

// session bundles what a sub-check needs to run cases and report violations.
type session struct {
	t     *testing.T
	e     *engine
	st    *stats
	rec   *vt.Rec
	mu    sync.Mutex
	nViol int
}

// report saves one violation per distinct signature (file cases are minimised first) and fails the test.
func (s *session) report(subName string, c any, f Failure) {
	s.mu.Lock()
	if s.st.violSigs[f.Sig()] || s.nViol >= 25 {
		s.mu.Unlock()
		return
	}
	s.st.violSigs[f.Sig()] = true
	s.nViol++
	s.mu.Unlock()
	reportedSigs.Store(f.Sig(), true)
	if cc, ok := c.(Case); ok {
		s.e.excl.Lock()
		c = s.e.minimize(cc, f.Sig())
		s.e.excl.Unlock()
	}
	d := "unlisted failure signature " + f.Sig() + ": " + detail(f, c)
	p := vt.ReportViolation(prop, subName, c, d)
	s.t.Errorf("VIOLATION %s replay=%s", d, p)
}

// parallel runs n jobs on nWorkers workers; job i is produced by mk (ok=false: skip).
func (s *session) parallel(nWorkers, n int, run func(w *worker, i int)) {
	var wg sync.WaitGroup
	var next int64 = -1
	for k := 0; k < nWorkers; k++ {
		wg.Add(1)
		go func() {
			defer wg.Done()
			w := newWorker(s.e.dir)
			defer w.stop()
			for {
				i := int(atomic.AddInt64(&next, 1))
				if i >= n {
					return
				}
				run(w, i)
			}
		}()
	}
	wg.Wait()
}

// ---- the campaign ------------------------------------------------------------------------------------

func envInt(name string, def int) int {
	if v, err := strconv.Atoi(os.Getenv(name)); err == nil && v > 0 {
		return v
	}
	return def
}

// triage (development aid): VERIF_C07_TRIAGE=<json map sig -> {case}> re-runs each sample alone and writes the
// observed signatures with locations next to it.
func triage(e *engine, path string) {
	b, err := os.ReadFile(path)
	if err != nil {
		return
	}
	var m map[string]struct {
		Case Case `json:"case"`
	}
	if json.Unmarshal(b, &m) != nil {
		return
	}
	var keys []string
	for k := range m {
		keys = append(keys, k)
	}
	sort.Strings(keys)
	var sb strings.Builder
	for _, k := range keys {
		if strings.HasPrefix(k, "hang") && os.Getenv("VERIF_C07_TRIAGE_HANGS") != "1" {
			continue
		}
		c := m[k].Case
		img, _, err := e.image(c)
		if err != nil {
			continue
		}
		fails, inc := e.evalAlone(img, nil)
		cj, _ := json.Marshal(c)
		fmt.Fprintf(&sb, "## %s\n   case %s\n", k, cj)
		if inc != "" {
			fmt.Fprintf(&sb, "   inconclusive %s\n", inc)
		}
		for _, f := range fails {
			fmt.Fprintf(&sb, "   -> %s @%s op=%s msg=%q\n      %s\n", f.Sig(), f.Loc, f.Op, f.Msg, strings.Join(f.Frames, " < "))
		}
	}
	_ = os.WriteFile(path+".triage.txt", []byte(sb.String()), 0o644)
}

func campaign(t *testing.T) {
	env := vt.GetEnv()
	rec := vt.Recorder(prop)
	e := newEngine()
	st := newStats()
	if tp := os.Getenv("VERIF_C07_TRIAGE"); tp != "" {
		if env.Shard == 0 {
			triage(e, tp)
		}
		rec.Case(sub, Case{Base: "triage"}, true)
		rec.Case(sub, Case{Base: "triage2"}, true)
		return
	}
	for _, n := range e.reg.notes {
		if env.Shard == 0 {
			rec.Note("%s", n)
		}
	}
	nWorkers := envInt("VERIF_C07_WORKERS", vt.N(4, 2))
	total := envInt("VERIF_C07_CASES", vt.N(5000, 75000))
	ses := &session{t: t, e: e, st: st, rec: rec}
	report := func(c Case, f Failure) { ses.report(sub, c, f) }

	// 1. intact base files: those the reader cannot handle are failures themselves and are not mutated
	var names []string
	for _, n := range e.reg.names {
		if !strings.HasPrefix(n, "raw/") {
			names = append(names, n)
		}
	}
	usable := make([]int32, len(names)) // 0 excluded, 1 opens with error, 2 opens
	var intactMu sync.Mutex
	var intactBad []string
	{
		var wg sync.WaitGroup
		var next int64 = -1
		for k := 0; k < nWorkers; k++ {
			wg.Add(1)
			go func() {
				defer wg.Done()
				w := newWorker(e.dir)
				defer w.stop()
				for {
					i := int(atomic.AddInt64(&next, 1))
					if i >= len(names) {
						return
					}
					c := Case{Base: names[i]}
					viol, fr := e.process(w, c, st, rec, true)
					if (fr.timedOut && !fr.slowOK) || len(fr.fails) > 0 {
						// went through the normal path (known finding or violation), and is not used as a base
						for _, f := range viol {
							report(c, f)
						}
						rec.Label(sub, "intact-base-file-fails", 1)
						intactMu.Lock()
						intactBad = append(intactBad, strings.TrimPrefix(names[i], "corpus/"))
						intactMu.Unlock()
						continue
					}
					if fr.resp != nil && fr.resp.OpenErr == "" {
						usable[i] = 2
					} else {
						usable[i] = 1 // rejected with an error, or only slow under load
					}
				}
			}()
		}
		wg.Wait()
	}
	g := &genEnv{reg: e.reg}
	nOpen, nErr, nExcl := 0, 0, 0
	for i, n := range names {
		wgt := 0
		switch usable[i] {
		case 2:
			nOpen++
			wgt = 3
			if strings.HasPrefix(n, "gen/") {
				wgt = 30
			}
			if strings.HasPrefix(n, "gen/fanin") {
				wgt = 4 // eight group-only files: their point is the intact read
			}
		case 1:
			nErr++
			wgt = 1
			if strings.HasPrefix(n, "gen/") {
				wgt = 10
			}
		default:
			nExcl++
		}
		for k := 0; k < wgt; k++ {
			g.pick = append(g.pick, n)
		}
	}
	if env.Shard == 0 {
		sort.Strings(intactBad)
		rec.Note("base files: %d open intact, %d are rejected intact with an error (kept, low weight), %d excluded because the intact file already fails (each matched a known finding or was reported): %s",
			nOpen, nErr, nExcl, strings.Join(intactBad, " "))
	}
	if len(g.pick) == 0 {
		t.Fatalf("no usable base file")
	}

	// 2. generated cases, nWorkers in parallel; case i is a pure function of (VERIF_SEED, shard, i)
	gen := rapid.Custom(g.gen)
	seed0 := vt.ShardSeed(sub)
	var wg sync.WaitGroup
	var next int64 = -1
	for k := 0; k < nWorkers; k++ {
		wg.Add(1)
		go func() {
			defer wg.Done()
			w := newWorker(e.dir)
			defer w.stop()
			for {
				i := atomic.AddInt64(&next, 1)
				if i >= int64(total) {
					return
				}
				c := gen.Example(int((seed0 + uint64(i)*0x9E3779B97F4A7C15) >> 2))
				viol, _ := e.process(w, c, st, rec, false)
				for _, f := range viol {
					report(c, f)
				}
				if i%5000 == 4999 && os.Getenv("VERIF_C07_DUMP") != "" {
					st.mu.Lock()
					dumpStats(st, env, "")
					st.mu.Unlock()
				}
			}
		}()
	}
	wg.Wait()

	// 3. summary
	st.mu.Lock()
	defer st.mu.Unlock()
	defer func() { _ = recover() }()
	if st.unconfirmed > 0 {
		rec.Note("shard %d: %d failures seen in a shared worker did not reproduce alone in a fresh worker (not counted)", env.Shard, st.unconfirmed)
	}
	if st.inconcl > 0 {
		rec.Note("shard %d: %d re-runs inconclusive (starved of CPU)", env.Shard, st.inconcl)
	}
	dumpStats(st, env, "")
}

func dumpStats(st *stats, env vt.Env, tag string) {
	if dump := os.Getenv("VERIF_C07_DUMP"); dump != "" {
		_ = os.MkdirAll(dump, 0o755)
		type row struct {
			Sig     string  `json:"sig"`
			Count   int     `json:"count"`
			Known   string  `json:"known"`
			Failure Failure `json:"failure"`
			Case    any     `json:"case"`
		}
		var rows []row
		for sg, n := range st.sigCount {
			rows = append(rows, row{sg, n, knownSig[sg], st.sigFailure[sg], st.sigSample[sg]})
		}
		sort.Slice(rows, func(i, j int) bool { return rows[i].Sig < rows[j].Sig })
		b, _ := json.MarshalIndent(rows, "", " ")
		_ = os.WriteFile(filepath.Join(dump, fmt.Sprintf("sigs-seed%d-shard%d%s.json", env.Seed, env.Shard, tag)), b, 0o644)
	}
}

// runOne replays one saved case alone in a fresh worker.
func runOne(c Case) vt.Verdict {
	e := newEngine()
	img, _, err := e.image(c)
	if err != nil {
		return vt.Skipped("%v", err)
	}
	fails, inconcl := e.evalAlone(img, nil)
	if inconcl != "" {
		return vt.Skipped("inconclusive: %s", inconcl)
	}
	var known *vt.Verdict
	for _, f := range fails {
		if id := knownID(f); id != "" {
			if known == nil {
				v := vt.KnownOr(id, "%s", detail(f, c))
				known = &v
			}
			continue
		}
		return vt.Bad("unlisted failure signature %s: %s", f.Sig(), detail(f, c))
	}
	if known != nil {
		return *known
	}
	return vt.Pass()
}

func TestProp(t *testing.T) {
	vt.Run(t, prop,
		vt.Func[Case]{Name: sub, Body: campaign, One: runOne},
		vt.Func[Case]{Name: subFields, Body: fieldsEnum, One: runOne},
		vt.Func[FCase]{Name: subFilters, Body: filterStreams, One: runOneF},
		vt.Func[Case]{Name: subTree, Body: treePointers, One: runOne},
		vt.Func[Case]{Name: subDup, Body: dupMessages, One: runOne},
		vt.Func[Case]{Name: subWrap, Body: wrapDims, One: runOne},
		vt.Func[Case]{Name: subCut, Body: msgCut, One: runOne},
	)
}
