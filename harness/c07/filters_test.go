package c07

// Sub-check "filters": generated filter streams. Chunk decoders are reached by the byte-level mutations of the campaign
// only through whatever compressed chunks the corpus happens to hold; here the streams themselves are generated from the
// token grammar of each codec (LZF literal runs and short/long back-references with distances around 0, produced-1,
// produced, produced+1 and the maximum; zlib and bzip2 streams, intact and damaged; shuffle and Fletcher-32 with odd
// element sizes and lengths) and handed to (a) FilterPipelineMessage.ApplyFilters directly and (b) the reader as the
// first chunk of a corpus dataset that uses that filter. Oracle as everywhere: error or output - no panic, no hang, no
// disproportionate allocation.

import (
	"bytes"
	"compress/zlib"
	"encoding/base64"
	"encoding/binary"
	"encoding/hex"
	"fmt"
	"sort"
	"strings"
	"sync"
	"testing"

	"github.com/scigolib/hdf5/verif/indep"
	"github.com/scigolib/hdf5/verif/vt"
	"pgregory.net/rapid"
)

const subFilters = "filters"

const (
	idDeflate = 1
	idShuffle = 2
	idFletch  = 3
	idSZIP    = 4
	idNBit    = 5
	idScale   = 6
	idBZIP2   = 307
	idLZF     = 32000
)

// FCase is one direct filter case: a pipeline description and the stored bytes of a chunk.
type FCase struct {
	Filters []FSpec `json:"filters"`
	Stream  string  `json:"stream"` // hex
	Kind    string  `json:"kind,omitempty"`
}

var bz2Samples = []string{
	"425a68393141592653598b410714000026d9800010400402000f4d9280200050a60009a08aa1e934f4c90918181b1c8c8e46868181e86474363b1d8f83e8f03f0d8d0e87f1772453850908b4107140",
	"425a6839314159265359222f9340000003c002c00008000008200020a93d4198b6a078bb9229c28481117c9a00",
	"425a683917724538509000000000",
}

// a bzip2 stream of 128 MiB of zeros (112 bytes; bz2.compress(b"\0"*(128<<20), 9)): the library has no bzip2 encoder, and no
// mutation of a real stream yields one that expands like this
const bz2BombB64 = "QlpoOTFBWSZTWQ4J4t8BX45AAMAAAAggADCATUZCoCWpCoCXMUFZJlNZDgni3wFfjkAAwAAACCAAMIBNRkKgJakKgJcxQVkmU1mB85rjAUTnQADEAAAIIAAwzAUpplRUQmxVFRCeLuSKcKEhS4+oQg=="

func bz2Bomb() []byte {
	b, _ := base64.StdEncoding.DecodeString(bz2BombB64)
	return b
}

func zlibOf(p []byte, level int) []byte {
	var b bytes.Buffer
	w, _ := zlib.NewWriterLevel(&b, level)
	_, _ = w.Write(p)
	_ = w.Close()
	return b.Bytes()
}

var (
	bombOnce sync.Once
	bombZ    []byte
)

// a deflate stream of 96 MiB of zeros (about 100 KiB): what a chunk may legitimately hold, and far beyond 64 MiB of output
func bomb() []byte {
	bombOnce.Do(func() { bombZ = zlibOf(make([]byte, 96<<20), 6) })
	return bombZ
}

func payload(t *rapid.T) []byte {
	n := pickOf(t, "plen", []int{0, 1, 2, 3, 4, 7, 8, 9, 16, 31, 32, 33, 64, 100, 255, 256, 1000, 4096})
	switch uni(t, "pkind", 0, 2) {
	case 0:
		return make([]byte, n)
	case 1:
		b := make([]byte, n)
		for i := range b {
			b[i] = byte(i*7 + 3)
		}
		return b
	default:
		return rapid.SliceOfN(rapid.Byte(), n, n).Draw(t, "pbytes")
	}
}

// damage applies one of the classic corruptions to a valid compressed stream.
func damage(t *rapid.T, s []byte) []byte {
	s = append([]byte(nil), s...)
	if len(s) == 0 {
		return s
	}
	switch uni(t, "dmg", 0, 7) {
	case 0: // intact
	case 1:
		s = s[:uni(t, "cut", 0, len(s)-1)]
	case 2:
		s[uni(t, "pos", 0, len(s)-1)] ^= byte(1 << uint(uni(t, "bit", 0, 7)))
	case 3:
		s[uni(t, "pos", 0, len(s)-1)] = byte(uni(t, "val", 0, 255))
	case 4: // trailer (adler / crc)
		for i := 0; i < 4 && i < len(s); i++ {
			s[len(s)-1-i] ^= 0xFF
		}
	case 5: // header
		for i := 0; i < 2 && i < len(s); i++ {
			s[i] = byte(uni(t, "hdr", 0, 255))
		}
	case 6:
		s = append(s, rapid.SliceOfN(rapid.Byte(), 1, 16).Draw(t, "tail")...)
	default:
		p := uni(t, "pos", 0, len(s)-1)
		n := uni(t, "n", 1, 8)
		for i := 0; i < n && p+i < len(s); i++ {
			s[p+i] = byte(uni(t, "rb", 0, 255))
		}
	}
	return s
}

// genLZF emits an LZF stream token by token, keeping track of how many bytes a decoder has produced so far, and aims the
// back-reference distances at the edges of that window. outLen counts only what a correct decoder would accept.
func genLZF(t *rapid.T) (s []byte, outLen int) {
	ntok := uni(t, "ntok", 1, 10)
	for i := 0; i < ntok; i++ {
		switch k := uni(t, "tok", 0, 11); {
		case k <= 3: // literal run
			n := pickOf(t, "lit", []int{1, 1, 2, 3, 8, 31, 32})
			s = append(s, byte(n-1))
			s = append(s, rapid.SliceOfN(rapid.Byte(), n, n).Draw(t, "litb")...)
			outLen += n
		case k <= 9: // back-reference
			long := k >= 8
			var l int
			if long {
				l = pickOf(t, "llen", []int{9, 10, 16, 263, 264})
			} else {
				l = uni(t, "slen", 3, 8)
			}
			L := outLen
			d := pickOf(t, "dist", []int{1, 2, L - 1, L, L + 1, L + 2, L / 2, 8191, 8192, uni(t, "drand", 1, 8192)})
			if d < 1 {
				d = 1
			}
			if d > 8192 {
				d = 8192
			}
			off := d - 1
			if long {
				s = append(s, 0xE0|byte(off>>8), byte(off), byte(l-9))
			} else {
				s = append(s, byte((l-2)<<5)|byte(off>>8), byte(off))
			}
			if d <= L {
				outLen += l
			}
		case k == 10: // raw control bytes
			s = append(s, rapid.SliceOfN(rapid.Byte(), 1, 3).Draw(t, "raw")...)
		default: // a token cut short at the end of the stream
			s = append(s, pickOf(t, "cutctl", []byte{0x1F, 0x20, 0xE0, 0xFF, 0x05}))
			if uni(t, "cut1", 0, 1) == 1 {
				s = append(s, byte(uni(t, "cutb", 0, 255)))
			}
			return s, outLen
		}
	}
	return s, outLen
}

// genStreamFor generates stored chunk bytes for a pipeline whose LAST filter (the first one undone) has the given id,
// and that filter's client data.
func genStreamFor(t *rapid.T, id int, allowBomb bool) (stream []byte, cd []uint32, kind string) {
	switch id {
	case idLZF:
		s, out := genLZF(t)
		switch uni(t, "lzfcd", 0, 9) {
		case 0:
			cd = nil
		case 1:
			cd = []uint32{4, 0x0105, 0}
		case 2:
			cd = []uint32{4, 0x0105, uint32(out)}
		case 3:
			cd = []uint32{4, 0x0105, uint32(out + 1)}
		case 4:
			cd = []uint32{4, 0x0105, uint32(len(s))} // equals the stored size: taken as "stored uncompressed"
		case 5:
			cd = []uint32{4, 0x0105, 1 << 20}
		default:
			cd = []uint32{4, 0x0105, uint32(out)}
		}
		return s, cd, "lzf"
	case idDeflate:
		if allowBomb && uni(t, "bomb", 0, 199) == 0 {
			return bomb(), []uint32{6}, "deflate-bomb"
		}
		if uni(t, "stored", 0, 9) == 0 { // a stored block with inconsistent LEN / NLEN
			p := payload(t)
			s := []byte{0x78, 0x01, 0x01}
			var l [4]byte
			binary.LittleEndian.PutUint16(l[0:], uint16(len(p)+uni(t, "lenoff", -1, 1)))
			binary.LittleEndian.PutUint16(l[2:], ^uint16(len(p)))
			s = append(append(s, l[:]...), p...)
			return s, []uint32{6}, "deflate-stored"
		}
		return damage(t, zlibOf(payload(t), pickOf(t, "lvl", []int{0, 1, 6, 9}))), []uint32{uint32(uni(t, "lvlcd", 0, 9))}, "deflate"
	case idBZIP2:
		if allowBomb && uni(t, "bzbomb", 0, 9) == 0 {
			return bz2Bomb(), []uint32{9}, "bzip2-bomb"
		}
		return damage(t, mustHex(pickOf(t, "bz", bz2Samples))), []uint32{9}, "bzip2"
	case idShuffle:
		p := payload(t)
		es := pickOf(t, "es", []int{0, 1, 2, 3, 4, 8, 16, len(p), len(p) + 1, len(p) - 1, 0x7FFFFFFF, -1})
		switch uni(t, "shcd", 0, 5) {
		case 0:
			cd = nil
		default:
			cd = []uint32{uint32(es)}
		}
		return p, cd, "shuffle"
	case idFletch:
		return rapid.SliceOfN(rapid.Byte(), 0, 12).Draw(t, "fl"), nil, "fletcher32"
	default:
		return payload(t), []uint32{uint32(uni(t, "cd0", 0, 64)), uint32(uni(t, "cd1", 0, 64))}, "other"
	}
}

func genFCase(t *rapid.T) FCase {
	ids := []int{idLZF, idLZF, idLZF, idLZF, idLZF, idLZF, idDeflate, idDeflate, idDeflate, idBZIP2, idShuffle, idShuffle, idFletch, idSZIP, idNBit, idScale, 999}
	last := pickOf(t, "fid", ids)
	stream, cd, kind := genStreamFor(t, last, true)
	fc := FCase{Kind: kind}
	// up to two more filters in front (they are undone after the last one); flag bit 0 = optional
	nfront := pickOf(t, "nfront", []int{0, 0, 0, 1, 1, 2})
	if kind == "deflate-bomb" || kind == "bzip2-bomb" {
		nfront = 0 // the oversized output is the point; what later stages do with it adds nothing
	}
	for i := 0; i < nfront; i++ {
		id := pickOf(t, "front", []int{idShuffle, idFletch, idDeflate, idLZF, idBZIP2})
		var fcd []uint32
		switch id {
		case idShuffle:
			fcd = []uint32{uint32(pickOf(t, "fes", []int{1, 2, 4, 8, 3, 0}))}
		case idLZF:
			fcd = []uint32{4, 0x0105, uint32(pickOf(t, "fexp", []int{0, 16, 4096}))}
		case idDeflate:
			fcd = []uint32{6}
		}
		fc.Filters = append(fc.Filters, FSpec{ID: uint16(id), Flags: uint16(uni(t, "fflag", 0, 1)), CD: fcd})
	}
	fc.Filters = append(fc.Filters, FSpec{ID: uint16(last), Flags: uint16(pickOf(t, "lflag", []int{0, 0, 0, 1})), CD: cd})
	fc.Stream = hex.EncodeToString(stream)
	if nfront > 0 {
		fc.Kind += "+front"
	}
	return fc
}

// ---- chunks of corpus datasets as carriers ---------------------------------------------------------------

type chunkTarget struct {
	base    string
	lastID  int
	nfilt   int // filters in the dataset's pipeline
	addr    int // chunk address
	size    int // stored size
	nbytes  int // offset of the 32-bit size in the B-tree key, or -1
	atEOF   bool
	dataset string
}

// findTargets locates, with the independent decoder, first chunks of filtered datasets indexed by a version-1 B-tree.
func findTargets(reg *registry, usable func(string) bool) []chunkTarget {
	var out []chunkTarget
	perID := map[int]int{}
	for _, name := range reg.names {
		if !strings.HasPrefix(name, "corpus/") || !usable(name) {
			continue
		}
		b := reg.bases[name]
		if !bytes.Contains(b.Data, []byte("TREE")) {
			continue
		}
		func() {
			defer func() { _ = recover() }()
			f, _ := indep.Decode(b.Data, indep.TolerateAll())
			if f == nil {
				return
			}
			var addrs []uint64
			for a := range f.Objects {
				addrs = append(addrs, a)
			}
			sort.Slice(addrs, func(i, j int) bool { return addrs[i] < addrs[j] })
			for _, a := range addrs {
				o := f.Objects[a]
				if o == nil || o.Kind != "dataset" || len(o.Filters) == 0 || o.ChunkIndex != "btree1" || len(o.Chunks) == 0 {
					continue
				}
				last := int(o.Filters[len(o.Filters)-1].ID)
				if perID[last] >= 2 || !(last == idDeflate || last == idShuffle || last == idFletch || last == idBZIP2 || last == idLZF) {
					continue // carriers only for the filters the reader implements
				}
				c := o.Chunks[0]
				if c.Addr == 0 || c.Addr+uint64(c.Size) > uint64(len(b.Data)) || c.Size == 0 {
					continue
				}
				tg := chunkTarget{base: name, lastID: last, nfilt: len(o.Filters), addr: int(c.Addr), size: int(c.Size), nbytes: -1, dataset: o.Path,
					atEOF: int(c.Addr)+int(c.Size) == len(b.Data)}
				// the key that holds this chunk's stored size: 4 bytes equal to the size, 8 + 8*(rank+1) bytes before the
				// child pointer equal to the chunk address
				keySize := 8 + 8*(len(o.Dims)+1)
				var pat [8]byte
				binary.LittleEndian.PutUint64(pat[:], c.Addr)
				for p := 0; p+8 <= len(b.Data); p++ {
					if bytes.Equal(b.Data[p:p+8], pat[:]) && p-keySize >= 0 && binary.LittleEndian.Uint32(b.Data[p-keySize:]) == c.Size {
						tg.nbytes = p - keySize
						break
					}
				}
				if tg.nbytes < 0 {
					continue
				}
				perID[last]++
				out = append(out, tg)
			}
		}()
	}
	return out
}

// carrier turns a stream into a file case: the stream replaces the stored bytes of the target chunk and the key's size.
func (tg chunkTarget) carrier(stream []byte) Case {
	c := Case{Base: tg.base}
	h := hex.EncodeToString(stream)
	switch {
	case len(stream) == 0:
	case tg.atEOF:
		c.Muts = append(c.Muts, Mut{K: "trunc", Off: tg.addr, At: "chunk"}, Mut{K: "ins", Off: tg.addr, B: h, At: "chunk", VK: "filter-stream"})
	default:
		c.Muts = append(c.Muts, Mut{K: "bytes", Off: tg.addr, B: h, At: "chunk", VK: "filter-stream"})
	}
	c.Muts = append(c.Muts, Mut{K: "set", Off: tg.nbytes, W: 4, V: uint64(len(stream)), At: "TREE-key+0", VK: "stream-length"})
	return c
}

func filterStreams(t *testing.T) {
	env := vt.GetEnv()
	rec := vt.Recorder(prop)
	e := newEngine()
	ses := &session{t: t, e: e, st: newStats(), rec: rec}
	nWorkers := envInt("VERIF_C07_WORKERS", vt.N(4, 2))
	nDirect := envInt("VERIF_C07_FILTER_CASES", vt.N(4000, 25000))
	nFile := nDirect / 5

	// (a) direct
	gen := rapid.Custom(genFCase)
	seed0 := vt.ShardSeed(subFilters)
	ses.parallel(nWorkers, nDirect, func(w *worker, i int) {
		fc := gen.Example(int((seed0 + uint64(i)*0x9E3779B97F4A7C15) >> 2))
		labels := []string{"stream=" + fc.Kind, fmt.Sprintf("nfilters=%d", len(fc.Filters))}
		viol, _ := e.processImg(w, subFilters, fc, mustHex(fc.Stream), fc.Filters, true, labels, ses.st, rec)
		for _, f := range viol {
			ses.report(subFilters, fc, f)
		}
	})

	// (b) as the first chunk of a corpus dataset whose pipeline ends with that filter
	intactOK := map[string]bool{}
	var okMu sync.Mutex
	usable := func(name string) bool {
		okMu.Lock()
		defer okMu.Unlock()
		if v, ok := intactOK[name]; ok {
			return v
		}
		return true
	}
	targets := findTargets(e.reg, usable)
	var good []chunkTarget
	for _, tg := range targets { // the intact carrier must be handled
		w := newWorker(e.dir)
		fr := e.evalFast(w, e.reg.bases[tg.base].Data, nil)
		w.stop()
		if !fr.timedOut && len(fr.fails) == 0 {
			good = append(good, tg)
		}
	}
	if env.Shard == 0 {
		var names []string
		for _, tg := range good {
			names = append(names, fmt.Sprintf("%s:%s(filter %d)", strings.TrimPrefix(tg.base, "corpus/"), tg.dataset, tg.lastID))
		}
		rec.Note("filters: %d generated streams per shard decoded directly; chunk carriers: %s", nDirect, strings.Join(names, " "))
	}
	if len(good) > 0 {
		type sg struct {
			S  []byte
			Cd []uint32
			K  string
		}
		ses.parallel(nWorkers, nFile, func(w *worker, i int) {
			tg := good[i%len(good)]
			g := rapid.Custom(func(t *rapid.T) sg {
				s, cd, k := genStreamFor(t, tg.lastID, tg.nfilt == 1)
				return sg{s, cd, k}
			}).Example(int((seed0 + uint64(i+nDirect)*0x9E3779B97F4A7C15) >> 2))
			if len(g.S) > 200<<10 {
				return
			}
			c := tg.carrier(g.S)
			img, inside, err := e.image(c)
			if err != nil {
				return
			}
			viol, _ := e.processImg(w, sub, c, img, nil, inside > 0, []string{"mut=filter-stream", "stream=" + g.K, "base=corpus", "hit=chunk"}, ses.st, rec)
			for _, f := range viol {
				ses.report(sub, c, f)
			}
		})
	}
	ses.st.mu.Lock()
	dumpStats(ses.st, env, "-filters")
	ses.st.mu.Unlock()
}

// runOneF replays one direct filter case alone in a fresh worker.
func runOneF(fc FCase) vt.Verdict {
	e := newEngine()
	fails, inconcl := e.evalAlone(mustHex(fc.Stream), fc.Filters)
	if inconcl != "" {
		return vt.Skipped("inconclusive: %s", inconcl)
	}
	var known *vt.Verdict
	for _, f := range fails {
		if id := knownID(f); id != "" {
			if known == nil {
				v := vt.KnownOr(id, "%s", detail(f, fc))
				known = &v
			}
			continue
		}
		return vt.Bad("unlisted failure signature %s: %s", f.Sig(), detail(f, fc))
	}
	if known != nil {
		return *known
	}
	return vt.Pass()
}
