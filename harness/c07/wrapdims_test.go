package c07

// Sub-check "wrapdims": dimension sets whose product wraps past 2^64, combined with chunk origins derived from them.
// Bounds checks on byte offsets inside a chunked read (chunk origin x row length x element size) can only be defeated by two
// cooperating fields: a dataspace whose element count wraps to a small non-zero number (so that a small result buffer is
// allocated) and a chunk key whose origin lies inside the huge extent at a position whose byte offset wraps to about zero.
// For every chunked dataset of gen/v2_wrapbase (one-element chunks, so that origins are exact) the dimensions are set to
// every factorisation of 2^64+k (k = 1..16, small factors, both orders; for rank 3 with a third factor 1 in each position)
// and the first chunk key's origin to the positions derived from it.

import (
	"encoding/binary"
	"fmt"
	"math/bits"
	"testing"

	"github.com/scigolib/hdf5/verif/vt"
)

const subWrap = "wrapdims"

var wrapBases = []string{"gen/v2_wrapbase", "gen/v2_chunked", "gen/v2_rank3"}

// factorPairs returns (f, (2^64+k)/f) for the smallest few factors f >= 2 of 2^64+k.
func factorPairs(k uint64, max int) [][2]uint64 {
	var out [][2]uint64
	for f := uint64(2); f < 400000 && len(out) < max; f++ {
		q, r := bits.Div64(1, k, f)
		if r == 0 {
			out = append(out, [2]uint64{f, q})
		}
	}
	return out
}

func wrapDims(t *testing.T) {
	env := vt.GetEnv()
	rec := vt.Recorder(prop)
	e := newEngine()
	ses := &session{t: t, e: e, st: newStats(), rec: rec}
	nWorkers := envInt("VERIF_C07_WORKERS", vt.N(4, 2))
	var jobs []Case
	nDs := 0
	for _, name := range wrapBases {
		b, ok := e.reg.bases[name]
		if !ok {
			continue
		}
		w := newWorker(e.dir)
		fr := e.evalFast(w, b.Data, nil)
		w.stop()
		if fr.timedOut || len(fr.fails) > 0 {
			continue
		}
		d := b.Data
		for _, g := range headerGroups(b) {
			var sp, lay, dt *hdrMsg
			for i := range g.msgs {
				switch g.msgs[i].kind {
				case "msg:dataspace":
					sp = &g.msgs[i]
				case "msg:layout":
					lay = &g.msgs[i]
				case "msg:datatype":
					dt = &g.msgs[i]
				}
			}
			if sp == nil || lay == nil || dt == nil {
				continue
			}
			sb := d[sp.off+sp.hl : sp.off+sp.hl+sp.size]
			lb := d[lay.off+lay.hl : lay.off+lay.hl+lay.size]
			db := d[dt.off+dt.hl : dt.off+dt.hl+dt.size]
			if len(sb) < 4 || len(lb) < 11 || lb[0] != 3 || lb[1] != 2 || len(db) < 8 {
				continue // chunked datasets only
			}
			rank := int(sb[1])
			dimOff := sp.off + sp.hl + 8
			if sb[0] == 2 {
				dimOff = sp.off + sp.hl + 4
			}
			if rank < 2 || rank > 3 || len(sb) < (dimOff-sp.off-sp.hl)+8*rank {
				continue
			}
			tree := int(binary.LittleEndian.Uint64(lb[3:]))
			if tree <= 0 || tree+24+8+8*rank > len(d) || string(d[tree:tree+4]) != "TREE" {
				continue
			}
			keyOff := tree + 24 + 8 // coordinates of key 0
			elem := uint64(binary.LittleEndian.Uint32(db[4:]))
			if elem == 0 {
				continue
			}
			nDs++
			setDims := func(ds []uint64) []Mut {
				var ms []Mut
				for i, v := range ds {
					ms = append(ms, Mut{K: "set", Off: dimOff + 8*i, W: 8, V: v, At: fmt.Sprintf("msg:dataspace+dim%d", i), VK: "wrap-factor"})
				}
				return ms
			}
			setKey := func(cs []uint64) []Mut {
				var ms []Mut
				for i, v := range cs {
					ms = append(ms, Mut{K: "set", Off: keyOff + 8*i, W: 8, V: v, At: fmt.Sprintf("TREE-key0+coord%d", i), VK: "wrap-origin"})
				}
				return ms
			}
			for k := uint64(1); k <= 16; k++ {
				for _, fp := range factorPairs(k, 3) {
					var dimSets [][]uint64
					if rank == 2 {
						dimSets = [][]uint64{{fp[0], fp[1]}, {fp[1], fp[0]}}
					} else {
						dimSets = [][]uint64{{1, fp[0], fp[1]}, {fp[0], 1, fp[1]}, {fp[0], fp[1], 1}, {fp[1], fp[0], 1}, {1, fp[1], fp[0]}}
					}
					for _, ds := range dimSets {
						// linear positions (in elements, row-major) whose byte offset wraps to about zero
						var ps []uint64
						for _, sz := range []uint64{elem, 1, 2, 4, 8} {
							var q, h uint64 // 2^64 / sz (0 stands for 2^64 itself) and 2^63 / sz
							if sz > 1 {
								q, _ = bits.Div64(1, 0, sz)
							}
							h = (uint64(1) << 63) / sz
							for _, dlt := range []uint64{0, 1, 2, 3, 4} {
								ps = append(ps, q-dlt, h-dlt)
							}
						}
						origins := [][]uint64{make([]uint64, rank)}
						mid, last := make([]uint64, rank), make([]uint64, rank)
						for i, v := range ds {
							mid[i], last[i] = v/2, v-1
						}
						origins = append(origins, mid, last)
						for _, p := range ps {
							o := make([]uint64, rank) // p -> coordinates in the extent ds (p is below the true product 2^64+k)
							rem := p
							for i := rank - 1; i >= 0; i-- {
								o[i] = rem % ds[i]
								rem /= ds[i]
							}
							if rem == 0 {
								origins = append(origins, o)
							}
						}
						seen := map[string]bool{}
						for _, o := range origins {
							key := fmt.Sprint(o)
							if seen[key] {
								continue
							}
							seen[key] = true
							jobs = append(jobs, Case{Base: name, Muts: append(setDims(ds), setKey(o)...)})
						}
						jobs = append(jobs, Case{Base: name, Muts: setDims(ds)})
					}
				}
			}
		}
	}
	var mine []Case
	for i, c := range jobs {
		if i%env.NShards == env.Shard {
			mine = append(mine, c)
		}
	}
	if env.Shard == 0 {
		rec.Note("wrapdims: %d chunked datasets of %d bases, %d cases over all shards: dimensions := factorisations of 2^64+k (k=1..16), alone and with the first chunk origin := 0 / middle / last / positions whose byte offset (x element size 1,2,4,8 or the dataset's) wraps to 0..-4 or to 2^63", nDs, len(wrapBases), len(jobs))
	}
	ses.parallel(nWorkers, len(mine), func(w *worker, i int) {
		c := mine[i]
		img, inside, err := e.image(c)
		if err != nil {
			return
		}
		viol, _ := e.processImg(w, subWrap, c, img, nil, inside > 0, []string{"hit=msg:dataspace", fmt.Sprintf("nmuts=%d", len(c.Muts))}, ses.st, rec)
		for _, f := range viol {
			ses.report(subWrap, c, f)
		}
	})
	rec.SetExhaustive(subWrap, true)
	ses.st.mu.Lock()
	dumpStats(ses.st, env, "-wrapdims")
	ses.st.mu.Unlock()
}
