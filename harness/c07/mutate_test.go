package c07

// Cases (plain data = replay files), their rapid generator, and the application of mutations to a base image.

import (
	"encoding/binary"
	"encoding/hex"
	"fmt"
	"strings"

	"pgregory.net/rapid"
)

// Mut is one plain-data mutation.
type Mut struct {
	K   string `json:"k"`             // set | bytes | flip | copy | trunc | ins
	Off int    `json:"off"`           // absolute file offset (after the preceding mutations)
	W   int    `json:"w,omitempty"`   // set: field width 1/2/4/8
	V   uint64 `json:"v,omitempty"`   // set: little-endian value
	B   string `json:"b,omitempty"`   // bytes / ins: hex
	Bit int    `json:"bit,omitempty"` // flip: bit number
	Src int    `json:"src,omitempty"` // copy: source offset
	N   int    `json:"n,omitempty"`   // copy: length
	At  string `json:"at,omitempty"`  // label: structure kind and offset inside it, e.g. "OHDR+12"
	VK  string `json:"vk,omitempty"`  // label: value class (zero, one, max, filesize, self, other, ...)
}

// Case is one fuzz case: a base file plus mutations (or, for raw/* bases, a tail of arbitrary bytes).
type Case struct {
	Base string `json:"base"`
	Muts []Mut  `json:"muts,omitempty"`
	Tail string `json:"tail,omitempty"` // hex, appended to a raw/* prefix before the mutations
}

func ones(w int) uint64 {
	if w >= 8 {
		return ^uint64(0)
	}
	return (uint64(1) << (8 * uint(w))) - 1
}

// apply materialises the mutated image. inside = number of mutations that touched at least one byte of the file.
func apply(base []byte, c Case) (out []byte, inside int) {
	out = append([]byte(nil), base...)
	if c.Tail != "" {
		if t, err := hex.DecodeString(c.Tail); err == nil {
			out = append(out, t...)
		}
	}
	for _, m := range c.Muts {
		if m.Off < 0 {
			continue
		}
		switch m.K {
		case "set":
			if m.W < 1 || m.W > 8 || m.Off >= len(out) {
				continue
			}
			var b [8]byte
			binary.LittleEndian.PutUint64(b[:], m.V)
			n := copy(out[m.Off:], b[:m.W])
			if n > 0 {
				inside++
			}
		case "bytes":
			bs, err := hex.DecodeString(m.B)
			if err != nil || m.Off >= len(out) {
				continue
			}
			if copy(out[m.Off:], bs) > 0 {
				inside++
			}
		case "flip":
			if m.Off < len(out) {
				out[m.Off] ^= 1 << uint(m.Bit&7)
				inside++
			}
		case "copy":
			if m.Src < 0 || m.Src >= len(out) || m.Off >= len(out) || m.N <= 0 {
				continue
			}
			end := m.Src + m.N
			if end > len(out) {
				end = len(out)
			}
			tmp := append([]byte(nil), out[m.Src:end]...)
			if copy(out[m.Off:], tmp) > 0 {
				inside++
			}
		case "trunc":
			if m.Off < len(out) {
				out = out[:m.Off]
				inside++
			}
		case "ins":
			bs, err := hex.DecodeString(m.B)
			if err != nil || m.Off > len(out) || len(bs) == 0 {
				continue
			}
			out = append(out[:m.Off], append(bs, out[m.Off:]...)...)
			inside++
		}
	}
	return out, inside
}

// ---- generator -----------------------------------------------------------------------------------

// genEnv is what the generator knows: the usable bases (weighted) of this run.
type genEnv struct {
	reg    *registry
	pick   []string // weighted list of base names for mutation modes
	noHang bool
}

var valueKinds = []string{"zero", "one", "0x7f", "0x80", "0xff", "max", "max-1", "signbit", "maxpos", "filesize", "filesize+1", "filesize-1",
	"self", "other", "other+8", "orig+1", "orig-1", "orig*2", "orig<<8", "small", "rand", "wrap", "wrap"}

func mix64(x uint64) uint64 {
	x += 0x9E3779B97F4A7C15
	x = (x ^ (x >> 30)) * 0xBF58476D1CE4E5B9
	x = (x ^ (x >> 27)) * 0x94D049BB133111EB
	return x ^ (x >> 31)
}

// uni draws an integer uniformly from [lo, hi]. rapid's own integer generators are deliberately biased towards small
// values and range ends, which would skew every structural choice here (base file, structure, offset, value class),
// so two rapid draws are mixed through a hash instead. Shrinking is done by the campaign (minimize), not by rapid.
func uni(t *rapid.T, label string, lo, hi int) int {
	if hi <= lo {
		return lo
	}
	a := rapid.Uint64().Draw(t, label)
	b := rapid.Uint64().Draw(t, label+"'")
	return lo + int(mix64(a^mix64(b))%uint64(hi-lo+1))
}

func pickOf[T any](t *rapid.T, label string, xs []T) T {
	return xs[uni(t, label, 0, len(xs)-1)]
}

// hot structure kinds get four times the weight of the others when the mutator picks a target
var hotKinds = map[string]bool{"msg:dataspace": true, "msg:datatype": true, "msg:layout": true, "msg:filter": true, "msg:attribute": true,
	"msg:continuation": true, "msg:link": true, "msg:symtab": true, "msg:attrinfo": true, "msg:linkinfo": true, "OHDR": true, "OHv1": true,
	"TREE": true, "SNOD": true, "HEAP": true, "GCOL": true, "FRHP": true, "BTHD": true, "BTLF": true, "FHDB": true, "OCHK": true}

func (b *Base) weightedKinds() []string { return b.wkinds }

func (b *Base) buildWeighted() {
	b.wkinds = nil
	for _, k := range b.kinds {
		n := 1
		if hotKinds[k] {
			n = 4
		}
		for i := 0; i < n; i++ {
			b.wkinds = append(b.wkinds, k)
		}
	}
}

// pickStruct picks a target structure: kind first (weighted), then an instance. near >= 0 restricts the choice to the
// neighbourhood of structure index near (correlated corruptions of one object).
func pickStruct(t *rapid.T, b *Base, near int) (Struct, int, bool) {
	if len(b.kinds) == 0 {
		return Struct{}, -1, false
	}
	if near >= 0 {
		lo, hi := near-6, near+6
		if lo < 0 {
			lo = 0
		}
		if hi > len(b.Structs)-1 {
			hi = len(b.Structs) - 1
		}
		i := uni(t, "snear", lo, hi)
		return b.Structs[i], i, true
	}
	k := pickOf(t, "skind", b.weightedKinds())
	ix := b.byKind[k]
	i := ix[uni(t, "sidx", 0, len(ix)-1)]
	return b.Structs[i], i, true
}

func genField(t *rapid.T, b *Base, near int) (Mut, int) {
	st, idx, ok := pickStruct(t, b, near)
	if !ok {
		return genRandom(t, b), -1
	}
	lo, hi := 0, 63
	switch {
	case strings.HasPrefix(st.Kind, "msg:"):
		// message header (type/size/flags) and body
		if st.Len > 0 && st.Len-1 < hi {
			hi = st.Len - 1
		}
	case st.Kind == "OHv1":
		hi = 15
	case strings.HasPrefix(st.Kind, "SB"):
		lo, hi = 8, st.Len-1
	case st.Kind == "TREE" || st.Kind == "SNOD" || st.Kind == "BTLF" || st.Kind == "BTIN" || st.Kind == "FHDB" || st.Kind == "FHIB" || st.Kind == "GCOL" || st.Kind == "FRHP" || st.Kind == "HEAP":
		lo = 4
		if uni(t, "deep", 0, 9) < 3 {
			lo, hi = 64, 320 // keys, children, entries, heap objects further inside the block
		}
	default:
		lo = 4
	}
	if hi < lo {
		hi = lo
	}
	delta := uni(t, "delta", lo, hi)
	w := pickOf(t, "w", []int{1, 1, 2, 2, 4, 4, 8, 8, 8})
	off := st.Off + delta
	vk := pickOf(t, "vk", valueKinds)
	var orig uint64
	for i := w - 1; i >= 0; i-- {
		if off+i < len(b.Data) {
			orig = orig<<8 | uint64(b.Data[off+i])
		}
	}
	fs := uint64(len(b.Data))
	var v uint64
	switch vk {
	case "zero":
		v = 0
	case "one":
		v = 1
	case "0x7f":
		v = 0x7F
	case "0x80":
		v = 0x80
	case "0xff":
		v = 0xFF
	case "max":
		v = ones(w)
	case "max-1":
		v = ones(w) - 1
	case "signbit":
		v = uint64(1) << (8*uint(w) - 1)
	case "maxpos":
		v = ones(w) >> 1
	case "filesize":
		v = fs
	case "filesize+1":
		v = fs + 1
	case "filesize-1":
		v = fs - 1
	case "self":
		v = uint64(st.Off)
	case "small":
		v = uint64(uni(t, "small", 0, 16))
	case "wrap":
		if w < 4 {
			w = pickOf(t, "wrapw", []int{4, 8})
		}
		v = pickOf(t, "wrapv", wrapValues(w))
	case "rand":
		v = rapid.Uint64().Draw(t, "rand")
	case "other", "other+8":
		if o, _, ok := pickStruct(t, b, -1); ok {
			v = uint64(o.Off)
		}
		if vk == "other+8" {
			v += 8
		}
	case "orig+1":
		v = orig + 1
	case "orig-1":
		v = orig - 1
	case "orig*2":
		v = orig * 2
	case "orig<<8":
		v = orig << 8
	}
	v &= ones(w)
	return Mut{K: "set", Off: off, W: w, V: v, At: fmt.Sprintf("%s+%d", st.Kind, delta), VK: vk}, idx
}

func genOffset(t *rapid.T, b *Base) int {
	n := len(b.Data)
	if n == 0 {
		return 0
	}
	if len(b.Structs) > 0 && uni(t, "near", 0, 9) < 7 {
		st, _, _ := pickStruct(t, b, -1)
		span := 128
		if st.Len > span {
			span = st.Len
		}
		o := st.Off + uni(t, "d", 0, span)
		if o >= n {
			o = n - 1
		}
		return o
	}
	return uni(t, "off", 0, n-1)
}

func genRandom(t *rapid.T, b *Base) Mut {
	n := len(b.Data)
	switch pickOf(t, "rk", []string{"bytes", "bytes", "bytes", "flip", "flip", "copy", "trunc", "ins"}) {
	case "bytes":
		bs := rapid.SliceOfN(rapid.Byte(), 1, 8).Draw(t, "b")
		return Mut{K: "bytes", Off: genOffset(t, b), B: hex.EncodeToString(bs)}
	case "flip":
		return Mut{K: "flip", Off: genOffset(t, b), Bit: uni(t, "bit", 0, 7)}
	case "copy":
		return Mut{K: "copy", Off: genOffset(t, b), Src: genOffset(t, b), N: uni(t, "n", 1, 256)}
	case "trunc":
		if uni(t, "tnear", 0, 1) == 1 {
			return Mut{K: "trunc", Off: genOffset(t, b)}
		}
		if n < 2 {
			return Mut{K: "trunc", Off: 0}
		}
		return Mut{K: "trunc", Off: uni(t, "toff", 1, n-1)}
	default:
		bs := rapid.SliceOfN(rapid.Byte(), 1, 16).Draw(t, "b")
		return Mut{K: "ins", Off: genOffset(t, b), B: hex.EncodeToString(bs)}
	}
}

var tokens = []string{"OHDR", "TREE", "SNOD", "HEAP", "GCOL", "FRHP", "FHDB", "FHIB", "BTHD", "BTLF", "OCHK"}

func genTail(t *rapid.T) string {
	var out []byte
	parts := uni(t, "parts", 1, 8)
	for i := 0; i < parts; i++ {
		switch uni(t, "pk", 0, 5) {
		case 0:
			out = append(out, pickOf(t, "tok", tokens)...)
		case 1: // a plausible v1 object header start
			out = append(out, 1, 0, byte(uni(t, "nm", 0, 6)), 0, 1, 0, 0, 0, byte(uni(t, "hs", 0, 255)), 0, 0, 0, 0, 0, 0, 0)
		case 2: // a plausible v1 message header
			out = append(out, byte(uni(t, "mt", 0, 0x18)), 0, byte(uni(t, "ms", 0, 64)), 0, 0, 0, 0, 0)
		case 3:
			out = append(out, make([]byte, uni(t, "z", 1, 24))...)
		default:
			out = append(out, rapid.SliceOfN(rapid.Byte(), 1, 48).Draw(t, "r")...)
		}
	}
	return hex.EncodeToString(out)
}

// pointer fields of a base image: (offset, width) of every little-endian field inside a scanned structure whose value is
// exactly the address of another scanned structure. Computed once per base.
type ptrField struct {
	Off, W int
	Owner  int // index of the structure that holds the field
}

func (b *Base) pointers() []ptrField { return b.ptrs }

func (b *Base) buildPointers() {
	addr := map[uint64]bool{}
	for _, st := range b.Structs {
		if st.Off > 0 {
			addr[uint64(st.Off)] = true
		}
	}
	seen := map[int]bool{}
	for si, st := range b.Structs {
		n := st.Len
		if n == 0 {
			n = 320
		}
		if n > 1024 {
			n = 1024
		}
		for d := 0; d+4 <= n && st.Off+d+4 <= len(b.Data); d++ {
			o := st.Off + d
			if seen[o] {
				continue
			}
			if o+8 <= len(b.Data) {
				if v := binary.LittleEndian.Uint64(b.Data[o:]); v >= 48 && addr[v] {
					seen[o] = true
					b.ptrs = append(b.ptrs, ptrField{o, 8, si})
					continue
				}
			}
			if v := uint64(binary.LittleEndian.Uint32(b.Data[o:])); v >= 48 && addr[v] && o+8 <= len(b.Data) && binary.LittleEndian.Uint32(b.Data[o+4:]) != 0 {
				// a 4-byte address (files with 4-byte offsets)
				seen[o] = true
				b.ptrs = append(b.ptrs, ptrField{o, 4, si})
			}
		}
	}
}

var cycleProne = map[string]bool{"SNOD": true, "msg:continuation": true, "msg:link": true, "TREE": true, "OHDR": true, "OCHK": true, "msg:symtab": true}

// genRedirect re-targets a pointer field: to the structure that holds it (self reference), to another structure of the
// same kind as the holder (sibling / ancestor), or to any other structure. For B-tree nodes the node level is raised as
// well half of the time, so that a redirected child is followed as a node.
func genRedirect(t *rapid.T, b *Base) []Mut {
	ps := b.pointers()
	if len(ps) == 0 {
		m, _ := genField(t, b, -1)
		return []Mut{m}
	}
	p := ps[uni(t, "ptr", 0, len(ps)-1)]
	owner := b.Structs[p.Owner]
	// Pointers whose redirection is known to send the pinned reader into a cycle (open findings KF-C07-18/19/22: SNOD entries,
	// continuation messages, link messages, B-tree children) are taken only one time in eight; each such case costs a worker.
	for try := 0; try < 4 && cycleProne[owner.Kind] && uni(t, "prone", 0, 7) != 0; try++ {
		p = ps[uni(t, "ptr2", 0, len(ps)-1)]
		owner = b.Structs[p.Owner]
	}
	var v uint64
	vk := "redirect-self"
	switch uni(t, "rk", 0, 3) {
	case 0, 1:
		v = uint64(owner.Off)
		if strings.HasPrefix(owner.Kind, "msg:") {
			// the enclosing object header or block: the nearest preceding non-message structure
			for i := p.Owner; i >= 0; i-- {
				if !strings.HasPrefix(b.Structs[i].Kind, "msg:") && b.Structs[i].Off <= owner.Off {
					v = uint64(b.Structs[i].Off)
					break
				}
			}
			if uni(t, "selfmsg", 0, 1) == 1 {
				v = uint64(owner.Off) // the message itself (a continuation block that starts at its own message)
			}
		}
	case 2:
		ix := b.byKind[owner.Kind]
		v = uint64(b.Structs[ix[uni(t, "same", 0, len(ix)-1)]].Off)
		vk = "redirect-samekind"
	default:
		o, _, _ := pickStruct(t, b, -1)
		v = uint64(o.Off)
		vk = "redirect-other"
	}
	out := []Mut{{K: "set", Off: p.Off, W: p.W, V: v & ones(p.W), At: fmt.Sprintf("%s+%d", owner.Kind, p.Off-owner.Off), VK: vk}}
	if owner.Kind == "TREE" && uni(t, "lvl", 0, 1) == 1 {
		out = append(out, Mut{K: "set", Off: owner.Off + 5, W: 1, V: uint64(uni(t, "level", 1, 3)), At: "TREE+5", VK: "small"})
	}
	return out
}

func (g *genEnv) gen(t *rapid.T) Case {
	mode := uni(t, "mode", 0, 99)
	if mode < 8 {
		c := Case{Base: pickOf(t, "raw", []string{"raw/v0", "raw/v2", "raw/v3"}), Tail: genTail(t)}
		if uni(t, "rawmut", 0, 3) == 0 {
			b := newBase(c.Base, append(append([]byte(nil), g.reg.bases[c.Base].Data...), mustHex(c.Tail)...))
			m, _ := genField(t, b, -1)
			c.Muts = append(c.Muts, m)
		}
		return c
	}
	name := g.pick[uni(t, "base", 0, len(g.pick)-1)]
	b := g.reg.bases[name]
	c := Case{Base: name}
	nm := pickOf(t, "nmuts", []int{1, 1, 1, 1, 1, 1, 2, 2, 3, 5})
	if nm == 5 {
		nm = uni(t, "nmuts2", 4, 6)
	}
	focus := nm > 1 && uni(t, "focus", 0, 1) == 1 // correlated corruptions: all field mutations in one neighbourhood
	near := -1
	for i := 0; i < nm; i++ {
		mk := uni(t, "mk", 0, 99)
		if mk < 8 {
			c.Muts = append(c.Muts, genRedirect(t, b)...)
		} else if mk < 68 {
			m, idx := genField(t, b, near)
			if focus && near < 0 {
				near = idx
			}
			c.Muts = append(c.Muts, m)
		} else {
			c.Muts = append(c.Muts, genRandom(t, b))
		}
	}
	return c
}

func mustHex(s string) []byte {
	b, _ := hex.DecodeString(s)
	return b
}
