package c07

// Base files: the corpus under <repo>/testdata (<= 256 KiB each), files written in this process through the
// public write API, and three synthetic superblock prefixes for the "arbitrary bytes" mode. Plus the
// structure scan that tells the field-directed mutator where the metadata lives.

import (
	"encoding/binary"
	"fmt"
	"os"
	"path/filepath"
	"sort"
	"strings"
	"sync"

	hdf5 "github.com/scigolib/hdf5"
	"github.com/scigolib/hdf5/internal/core"
	"github.com/scigolib/hdf5/verif/indep"
	"github.com/scigolib/hdf5/verif/vt"
)

const maxBaseSize = 256 << 10

var hdfSig = []byte("\x89HDF\r\n\x1a\n")

// Struct is one metadata structure (or object-header message) found in a base file.
type Struct struct {
	Off  int
	Kind string
	Len  int // 0 = unknown
}

type Base struct {
	Name    string
	Data    []byte
	Structs []Struct
	byKind  map[string][]int
	kinds   []string
	wkinds  []string
	ptrs    []ptrField
}

func repoRoot() string {
	if r := os.Getenv("VERIF_REPO"); r != "" {
		return r
	}
	return "/repo"
}

// ---- structure scan ---------------------------------------------------------------------------

var blockSigs = []string{"OHDR", "TREE", "SNOD", "HEAP", "GCOL", "FRHP", "FHDB", "FHIB", "BTHD", "BTLF", "BTIN", "OCHK", "FSHD", "FSSE", "SMTB", "SMLI"}

var msgNames = map[int]string{0: "nil", 1: "dataspace", 2: "linkinfo", 3: "datatype", 4: "fillold", 5: "fill", 6: "link", 7: "external",
	8: "layout", 9: "bogus", 10: "groupinfo", 11: "filter", 12: "attribute", 13: "comment", 14: "mtimeold", 15: "sharedtable",
	16: "continuation", 17: "symtab", 18: "mtime", 19: "btreek", 20: "driverinfo", 21: "attrinfo", 22: "refcount"}

func msgKind(t int) string {
	if n, ok := msgNames[t]; ok {
		return "msg:" + n
	}
	return "msg:other"
}

type scanner struct {
	d    []byte
	out  []Struct
	seen map[int]bool
	offW int
	lenW int
}

func (s *scanner) u(off, w int) (uint64, bool) {
	if off < 0 || w <= 0 || w > 8 || off+w > len(s.d) {
		return 0, false
	}
	var v uint64
	for i := w - 1; i >= 0; i-- {
		v = v<<8 | uint64(s.d[off+i])
	}
	return v, true
}

func (s *scanner) add(off int, kind string, n int) {
	if off < 0 || off >= len(s.d) {
		return
	}
	s.out = append(s.out, Struct{Off: off, Kind: kind, Len: n})
}

// v1 object header at a: version 1, reserved 0, nmsgs u16, refcount u32, header size u32, pad to 16.
func (s *scanner) ohV1(a int) {
	if a <= 0 || a+16 > len(s.d) || s.seen[a] || s.d[a] != 1 || s.d[a+1] != 0 {
		return
	}
	nm, _ := s.u(a+2, 2)
	hs, _ := s.u(a+8, 4)
	if nm > 512 || hs > 1<<20 || a+16+int(hs) > len(s.d) {
		return
	}
	s.seen[a] = true
	s.add(a, "OHv1", 16)
	s.msgsV1(a+16, a+16+int(hs), 0)
}

func (s *scanner) msgsV1(p, end, depth int) {
	for n := 0; p+8 <= end && p+8 <= len(s.d) && n < 512; n++ {
		t, _ := s.u(p, 2)
		sz, _ := s.u(p+2, 2)
		body := p + 8
		if body+int(sz) > len(s.d) {
			return
		}
		s.add(p, msgKind(int(t)), 8+int(sz))
		if t == 0x10 && depth < 8 {
			off, ok1 := s.u(body, s.offW)
			ln, ok2 := s.u(body+s.offW, s.lenW)
			if ok1 && ok2 && off < uint64(len(s.d)) && ln <= uint64(len(s.d)) && !s.seen[int(off)] {
				s.seen[int(off)] = true
				s.msgsV1(int(off), int(off)+int(ln), depth+1)
			}
		}
		if t == 0x11 { // symbol table message: B-tree and heap addresses; SNODs are found by the signature scan
		}
		p = body + int(sz)
	}
}

// v2 object header: "OHDR" version 2 flags ...
func (s *scanner) ohV2(a int) {
	if a+6 > len(s.d) || s.d[a+4] != 2 {
		return
	}
	flags := int(s.d[a+5])
	p := a + 6
	if flags&0x20 != 0 {
		p += 16
	}
	if flags&0x10 != 0 {
		p += 4
	}
	w := 1 << (flags & 3)
	cs, ok := s.u(p, w)
	if !ok || cs > 1<<20 {
		return
	}
	p += w
	s.msgsV2(p, p+int(cs), flags, 0)
}

func (s *scanner) msgsV2(p, end, flags, depth int) {
	hl := 4
	if flags&0x04 != 0 {
		hl = 6
	}
	for n := 0; p+hl <= end && p+hl <= len(s.d) && n < 512; n++ {
		t := int(s.d[p])
		sz, _ := s.u(p+1, 2)
		body := p + hl
		if body+int(sz) > len(s.d) {
			return
		}
		s.add(p, msgKind(t), hl+int(sz))
		if t == 0x10 && depth < 8 {
			off, ok1 := s.u(body, s.offW)
			ln, ok2 := s.u(body+s.offW, s.lenW)
			if ok1 && ok2 && off+4 < uint64(len(s.d)) && ln <= uint64(len(s.d)) && ln >= 8 && !s.seen[int(off)] {
				s.seen[int(off)] = true
				s.msgsV2(int(off)+4, int(off)+int(ln)-4, flags, depth+1)
			}
		}
		p = body + int(sz)
	}
}

// scanStructs lists the metadata structures of a file image. It never panics on odd input.
func scanStructs(d []byte) (out []Struct) {
	defer func() {
		if recover() != nil {
			// keep what was found
		}
	}()
	s := &scanner{d: d, seen: map[int]bool{}, offW: 8, lenW: 8}
	defer func() { out = s.out }()
	if len(d) < 16 || string(d[:8]) != string(hdfSig) {
		return
	}
	ver := d[8]
	root := -1
	switch ver {
	case 0, 1:
		s.add(0, "SBv0", 96)
		if len(d) > 14 && (d[13] == 2 || d[13] == 4 || d[13] == 8) {
			s.offW = int(d[13])
		}
		if len(d) > 14 && (d[14] == 2 || d[14] == 4 || d[14] == 8) {
			s.lenW = int(d[14])
		}
		base := 24
		if ver == 1 {
			base = 28
		}
		if v, ok := s.u(base+4*s.offW+s.offW, s.offW); ok {
			root = int(v)
		}
	case 2, 3:
		s.add(0, "SBv2", 48)
		if len(d) > 10 && (d[9] == 2 || d[9] == 4 || d[9] == 8) {
			s.offW = int(d[9])
		}
		if len(d) > 10 && (d[10] == 2 || d[10] == 4 || d[10] == 8) {
			s.lenW = int(d[10])
		}
		if v, ok := s.u(12+3*s.offW, s.offW); ok {
			root = int(v)
		}
	default:
		s.add(0, "SB?", 48)
	}
	// block signatures
	for i := 8; i+4 <= len(d); i++ {
		c := d[i]
		if c != 'O' && c != 'T' && c != 'S' && c != 'H' && c != 'G' && c != 'F' && c != 'B' {
			continue
		}
		four := string(d[i : i+4])
		for _, sg := range blockSigs {
			if four == sg {
				s.add(i, sg, 0)
				switch sg {
				case "OHDR":
					s.ohV2(i)
				case "SNOD":
					// entries: name offset, object header address, cache type, reserved, 16 bytes scratch
					ns, _ := s.u(i+6, 2)
					esz := 2*s.offW + 24
					for k := 0; k < int(ns) && k < 64; k++ {
						if a, ok := s.u(i+8+k*esz+s.offW, s.offW); ok && a < uint64(len(d)) {
							s.ohV1(int(a))
						}
					}
				}
				break
			}
		}
	}
	if root > 0 && root < len(d) {
		s.ohV1(root)
	}
	return
}

func (b *Base) index() {
	b.byKind = map[string][]int{}
	for i, st := range b.Structs {
		b.byKind[st.Kind] = append(b.byKind[st.Kind], i)
	}
	b.kinds = b.kinds[:0]
	for k := range b.byKind {
		b.kinds = append(b.kinds, k)
	}
	sort.Strings(b.kinds)
	b.buildWeighted()
	b.buildPointers()
}

// structAt names the structure a file offset belongs to (innermost: the last structure starting at or before the
// offset whose extent, or 64 bytes when unknown, covers it).
func (b *Base) structAt(off int) string {
	best := "data"
	bestOff := -1
	for _, st := range b.Structs {
		n := st.Len
		if n == 0 {
			n = 64
		}
		if st.Off <= off && off < st.Off+n && st.Off >= bestOff {
			best, bestOff = st.Kind, st.Off
		}
	}
	return best
}

// ---- synthetic prefixes -------------------------------------------------------------------------

func rawPrefix(kind string) []byte {
	le := binary.LittleEndian
	switch kind {
	case "raw/v0":
		b := make([]byte, 96)
		copy(b, hdfSig)
		b[13], b[14] = 8, 8
		le.PutUint16(b[16:], 4)
		le.PutUint16(b[18:], 16)
		le.PutUint64(b[32:], ^uint64(0))
		le.PutUint64(b[40:], 4096)
		le.PutUint64(b[48:], ^uint64(0))
		le.PutUint64(b[64:], 96) // root object header right behind the superblock
		le.PutUint32(b[72:], 1)
		le.PutUint64(b[80:], 136) // cached B-tree address
		le.PutUint64(b[88:], 680) // cached heap address
		return b
	case "raw/v2", "raw/v3":
		b := make([]byte, 48)
		copy(b, hdfSig)
		b[8] = 2
		if kind == "raw/v3" {
			b[8] = 3
		}
		b[9], b[10] = 8, 8
		le.PutUint64(b[20:], ^uint64(0))
		le.PutUint64(b[28:], 4096)
		le.PutUint64(b[36:], 48)
		return b
	}
	return nil
}

// ---- library-written files ------------------------------------------------------------------------

type builder struct {
	name string
	f    func(path string) error
}

func must(errs ...error) error {
	for _, e := range errs {
		if e != nil {
			return e
		}
	}
	return nil
}

func compoundType() (*core.DatatypeMessage, error) {
	i32, err := core.CreateBasicDatatypeMessage(core.DatatypeFixed, 4)
	if err != nil {
		return nil, err
	}
	f64, err := core.CreateBasicDatatypeMessage(core.DatatypeFloat, 8)
	if err != nil {
		return nil, err
	}
	i16, err := core.CreateBasicDatatypeMessage(core.DatatypeFixed, 2)
	if err != nil {
		return nil, err
	}
	return core.CreateCompoundTypeFromFields([]core.CompoundFieldDef{
		{Name: "id", Offset: 0, Type: i32}, {Name: "val", Offset: 4, Type: f64}, {Name: "s", Offset: 12, Type: i16}})
}

func seq(n int) []float64 {
	v := make([]float64, n)
	for i := range v {
		v[i] = float64(i)*1.5 - 3
	}
	return v
}

// populate writes the same logical content into a file of any superblock version; individual steps may fail on the
// pinned writer (known writer defects) - the file is kept as long as it can be closed.
func populate(fw *hdf5.FileWriter, rich bool) {
	if d, err := fw.CreateDataset("/f64", hdf5.Float64, []uint64{6}); err == nil {
		_ = d.Write(seq(6))
		_ = d.WriteAttribute("units", "kelvin")
		_ = d.WriteAttribute("scale", float64(2.5))
		_ = d.WriteAttribute("ids", []int32{1, 2, 3})
	}
	if d, err := fw.CreateDataset("/i32m", hdf5.Int32, []uint64{3, 4}); err == nil {
		_ = d.Write([]int32{1, 2, 3, 4, 5, 6, 7, 8, 9, 10, 11, 12})
	}
	if g, err := fw.CreateGroup("/g"); err == nil {
		_ = g.WriteAttribute("description", "a group")
		_ = g.WriteAttribute("version", int32(3))
	}
	if d, err := fw.CreateDataset("/g/u8", hdf5.Uint8, []uint64{5}); err == nil {
		_ = d.Write([]uint8{1, 2, 3, 4, 250})
	}
	if !rich {
		return
	}
	if d, err := fw.CreateDataset("/g/chunk1", hdf5.Float64, []uint64{10}, hdf5.WithChunkDims([]uint64{4})); err == nil {
		_ = d.Write(seq(10))
	}
	if d, err := fw.CreateDataset("/chunk2", hdf5.Int32, []uint64{4, 6}, hdf5.WithChunkDims([]uint64{2, 3}), hdf5.WithMaxDims([]uint64{hdf5.Unlimited, 6})); err == nil {
		v := make([]int32, 24)
		for i := range v {
			v[i] = int32(i * 7)
		}
		_ = d.Write(v)
	}
	if d, err := fw.CreateDataset("/names", hdf5.String, []uint64{3}, hdf5.WithStringSize(8)); err == nil {
		_ = d.Write([]string{"alpha", "beta", "gamma"})
	}
	if d, err := fw.CreateDataset("/i16", hdf5.Int16, []uint64{4}); err == nil {
		_ = d.Write([]int16{-1, 0, 1, 32767})
	}
	if d, err := fw.CreateDataset("/f32", hdf5.Float32, []uint64{2, 2}); err == nil {
		_ = d.Write([]float32{1, 2, 3, 4})
	}
	if d, err := fw.CreateDataset("/u64", hdf5.Uint64, []uint64{2}); err == nil {
		_ = d.Write([]uint64{1, 1 << 63})
	}
	if ct, err := compoundType(); err == nil {
		if d, err := fw.CreateCompoundDataset("/cmp", ct, []uint64{2}); err == nil {
			raw := make([]byte, 28)
			for i := range raw {
				raw[i] = byte(i * 3)
			}
			_ = d.WriteRaw(raw)
		}
	}
	if g, err := fw.CreateGroup("/g/sub"); err == nil {
		_ = g.WriteAttribute("n", int64(7))
	}
	_ = fw.CreateHardLink("/g/f64_link", "/f64")
	_ = fw.CreateSoftLink("/g/soft", "/i32m")
}

func buildVersion(ver uint8, rich bool) func(string) error {
	return func(path string) error {
		fw, err := hdf5.CreateForWrite(path, hdf5.CreateTruncate, hdf5.WithSuperblockVersion(ver))
		if err != nil {
			return err
		}
		populate(fw, rich)
		return fw.Close()
	}
}

var builders = []builder{
	{"gen/v2_basic", buildVersion(core.Version2, false)},
	{"gen/v2_rich", buildVersion(core.Version2, true)},
	{"gen/v3_rich", buildVersion(core.Version3, true)},
	{"gen/v0_basic", buildVersion(core.Version0, false)},
	{"gen/v0_rich", buildVersion(core.Version0, true)},
	{"gen/v2_dense_attrs", func(path string) error {
		fw, err := hdf5.CreateForWrite(path, hdf5.CreateTruncate)
		if err != nil {
			return err
		}
		if d, err := fw.CreateDataset("/d", hdf5.Float64, []uint64{4}); err == nil {
			_ = d.Write(seq(4))
			for i := 0; i < 12; i++ { // > 8: dense attribute storage (fractal heap + B-tree v2)
				_ = d.WriteAttribute(fmt.Sprintf("attr_%02d", i), int32(i*11))
			}
		}
		return fw.Close()
	}},
	{"gen/v2_compact_attrs", func(path string) error {
		fw, err := hdf5.CreateForWrite(path, hdf5.CreateTruncate)
		if err != nil {
			return err
		}
		if d, err := fw.CreateDataset("/d", hdf5.Int32, []uint64{2, 2}); err == nil {
			_ = d.Write([]int32{1, 2, 3, 4})
			_ = d.WriteAttribute("a", int32(1))
			_ = d.WriteAttribute("b", float64(2))
			_ = d.WriteAttribute("c", "text value")
			_ = d.WriteAttribute("d", []float64{1, 2, 3})
			_ = d.WriteAttribute("e", uint8(9))
		}
		return fw.Close()
	}},
	{"gen/v2_compound_strings", func(path string) error {
		fw, err := hdf5.CreateForWrite(path, hdf5.CreateTruncate)
		if err != nil {
			return err
		}
		if ct, err := compoundType(); err == nil {
			if d, err := fw.CreateCompoundDataset("/cmp", ct, []uint64{3}); err == nil {
				raw := make([]byte, 42)
				for i := range raw {
					raw[i] = byte(i)
				}
				_ = d.WriteRaw(raw)
			}
		}
		if d, err := fw.CreateDataset("/names", hdf5.String, []uint64{4}, hdf5.WithStringSize(6)); err == nil {
			_ = d.Write([]string{"ab", "cdef", "", "xyzxyz"})
		}
		return fw.Close()
	}},
	{"gen/v2_chunked", func(path string) error {
		fw, err := hdf5.CreateForWrite(path, hdf5.CreateTruncate)
		if err != nil {
			return err
		}
		if d, err := fw.CreateDataset("/c1", hdf5.Float64, []uint64{12}, hdf5.WithChunkDims([]uint64{4})); err == nil {
			_ = d.Write(seq(12))
		}
		if d, err := fw.CreateDataset("/c2", hdf5.Int32, []uint64{4, 4}, hdf5.WithChunkDims([]uint64{2, 2})); err == nil {
			v := make([]int32, 16)
			for i := range v {
				v[i] = int32(i)
			}
			_ = d.Write(v)
		}
		return fw.Close()
	}},
	{"gen/v2_links", func(path string) error {
		fw, err := hdf5.CreateForWrite(path, hdf5.CreateTruncate)
		if err != nil {
			return err
		}
		_, _ = fw.CreateGroup("/a")
		_, _ = fw.CreateGroup("/a/b")
		if d, err := fw.CreateDataset("/a/b/d", hdf5.Int64, []uint64{3}); err == nil {
			_ = d.Write([]int64{1, -2, 3})
		}
		_ = fw.CreateHardLink("/a/hard", "/a/b/d")
		_ = fw.CreateSoftLink("/a/soft", "/a/b/d")
		_ = fw.CreateExternalLink("/a/ext", "other.h5", "/x")
		return fw.Close()
	}},
	{"gen/v2_chunked_deep", buildDeepTree},
	{"gen/compact_only", buildCompactOnly},
	{"gen/fanin_v0_d6", buildFanIn(core.Version0, 6)}, {"gen/fanin_v0_d12", buildFanIn(core.Version0, 12)},
	{"gen/fanin_v0_d18", buildFanIn(core.Version0, 18)}, {"gen/fanin_v0_d24", buildFanIn(core.Version0, 24)},
	{"gen/fanin_v2_d6", buildFanIn(core.Version2, 6)}, {"gen/fanin_v2_d12", buildFanIn(core.Version2, 12)},
	{"gen/fanin_v2_d18", buildFanIn(core.Version2, 18)}, {"gen/fanin_v2_d24", buildFanIn(core.Version2, 24)},
	{"gen/v2_rank3", func(path string) error { // rank-3 datasets: contiguous (row-by-row hyperslab reader) and chunked
		fw, err := hdf5.CreateForWrite(path, hdf5.CreateTruncate)
		if err != nil {
			return err
		}
		if d, err := fw.CreateDataset("/c3", hdf5.Float64, []uint64{4, 3, 4}); err == nil {
			_ = d.Write(seq(48))
		}
		if d, err := fw.CreateDataset("/k3", hdf5.Int32, []uint64{4, 4, 4}, hdf5.WithChunkDims([]uint64{2, 2, 2})); err == nil {
			v := make([]int32, 64)
			for i := range v {
				v[i] = int32(i)
			}
			_ = d.Write(v)
		}
		return fw.Close()
	}},
	{"gen/v2_wrapbase", func(path string) error { // one-element chunks: chunk origins are exact element offsets
		fw, err := hdf5.CreateForWrite(path, hdf5.CreateTruncate)
		if err != nil {
			return err
		}
		if d, err := fw.CreateDataset("/w8", hdf5.Float64, []uint64{2, 2}, hdf5.WithChunkDims([]uint64{1, 1})); err == nil {
			_ = d.Write([]float64{1, 2, 3, 4})
		}
		if d, err := fw.CreateDataset("/w4", hdf5.Int32, []uint64{2, 2}, hdf5.WithChunkDims([]uint64{1, 1})); err == nil {
			_ = d.Write([]int32{1, 2, 3, 4})
		}
		if d, err := fw.CreateDataset("/w3", hdf5.Float64, []uint64{2, 2, 2}, hdf5.WithChunkDims([]uint64{1, 1, 1})); err == nil {
			_ = d.Write(seq(8))
		}
		return fw.Close()
	}},
}

// buildFanIn writes a chain of groups in which every group has two hard links, "a" and "b", to the next one: a DAG with
// fan-in. The file grows linearly with the depth while the number of paths doubles per level; a reader that expands a group
// once per path instead of once per group needs time and memory exponential in the file size.
func buildFanIn(ver uint8, depth int) func(string) error {
	return func(path string) error {
		fw, err := hdf5.CreateForWrite(path, hdf5.CreateTruncate, hdf5.WithSuperblockVersion(ver))
		if err != nil {
			return err
		}
		cur := ""
		for i := 0; i < depth; i++ {
			if _, err := fw.CreateGroup(cur + "/a"); err != nil {
				_ = fw.Close()
				return fmt.Errorf("fan-in depth %d: %w", i, err)
			}
			if err := fw.CreateHardLink(cur+"/b", cur+"/a"); err != nil {
				_ = fw.Close()
				return fmt.Errorf("fan-in depth %d: %w", i, err)
			}
			cur += "/a"
		}
		return fw.Close()
	}
}

// buildCompactOnly derives a small-to-read image with a COMPACT-layout dataset (the library cannot write that layout):
// corpus file hdf5_official/h5copytst_new.h5 with the root group's symbol table node cut after the entry of /compact
// (entries are sorted by name: /chunk, /compact remain), so that a case costs two datasets instead of twenty-three.
func buildCompactOnly(path string) error {
	b, err := os.ReadFile(filepath.Join(repoRoot(), "testdata", "hdf5_official", "h5copytst_new.h5"))
	if err != nil {
		return err
	}
	f, _ := indep.Decode(b, indep.Options{})
	if f == nil {
		return fmt.Errorf("compact_only: source not decodable")
	}
	addr, ok := f.Paths["/compact"]
	if o := f.Objects[addr]; !ok || o == nil || o.Layout != "compact" {
		return fmt.Errorf("compact_only: /compact not found as a compact dataset")
	}
	le := binary.LittleEndian
	for i := 0; i+8 <= len(b); i++ {
		if string(b[i:i+4]) != "SNOD" {
			continue
		}
		n := int(le.Uint16(b[i+6:]))
		for k := 0; k < n && i+8+(k+1)*40 <= len(b); k++ {
			if le.Uint64(b[i+8+k*40+8:]) == addr {
				le.PutUint16(b[i+6:], uint16(k+1))
				return os.WriteFile(path, b, 0o644)
			}
		}
	}
	return fmt.Errorf("compact_only: symbol table entry of /compact not found")
}

// buildDeepTree writes a chunked dataset of 130 one-element chunks with the library and then re-shapes its chunk index,
// which the library writes as ONE leaf of 130 entries, into a two-level version-1 B-tree: the leaf keeps entries 0..64
// (leaf A), entries 65..129 move to a new leaf B and a new root node of level 1 with the two children is appended; the layout
// message is pointed at the root. (The writer never splits nodes, and only a tree with internal nodes exercises the
// reader's descent.)
func buildDeepTree(path string) error {
	fw, err := hdf5.CreateForWrite(path, hdf5.CreateTruncate)
	if err != nil {
		return err
	}
	d, err := fw.CreateDataset("/deep", hdf5.Int32, []uint64{130}, hdf5.WithChunkDims([]uint64{1}))
	if err != nil {
		_ = fw.Close()
		return err
	}
	v := make([]int32, 130)
	for i := range v {
		v[i] = int32(i * 3)
	}
	if err := d.Write(v); err != nil {
		_ = fw.Close()
		return err
	}
	if err := fw.Close(); err != nil {
		return err
	}
	b, err := os.ReadFile(path)
	if err != nil {
		return err
	}
	le := binary.LittleEndian
	const hdr, half = 24, 65 // node header, entries per new leaf
	ks := 0                  // key size: 4+4+8 per stored coordinate (the writer's count of coordinates is inferred)
	leaf := -1
	for i := 0; i+hdr <= len(b); i++ {
		if string(b[i:i+4]) == "TREE" && b[i+4] == 1 && b[i+5] == 0 && le.Uint16(b[i+6:]) == 130 {
			leaf = i
			break
		}
	}
	if leaf < 0 {
		return fmt.Errorf("deep tree: single leaf of 130 entries not found")
	}
	for _, k := range []int{16, 24, 32} {
		ok := leaf+hdr+130*(k+8)+k <= len(b)
		for i := 0; ok && i < 130; i++ {
			p := leaf + hdr + i*(k+8)
			a := le.Uint64(b[p+k:])
			ok = le.Uint32(b[p:]) == 4 && le.Uint32(b[p+4:]) == 0 && a >= 48 && a < uint64(len(b))
		}
		if ok {
			ks = k
			break
		}
	}
	if ks == 0 {
		return fmt.Errorf("deep tree: key size of the chunk index not recognised")
	}
	es := ks + 8
	for len(b)%8 != 0 {
		b = append(b, 0)
	}
	addrB := len(b)
	undef := []byte{0xFF, 0xFF, 0xFF, 0xFF, 0xFF, 0xFF, 0xFF, 0xFF}
	u64 := func(v int) []byte { var x [8]byte; le.PutUint64(x[:], uint64(v)); return x[:] }
	nodeB := append([]byte("TREE\x01\x00"), byte(half), 0)
	nodeB = append(append(nodeB, u64(leaf)...), undef...)
	nodeB = append(nodeB, b[leaf+hdr+half*es:leaf+hdr+130*es+ks]...)
	b = append(b, nodeB...)
	addrRoot := len(b)
	root := append([]byte("TREE\x01\x01"), 2, 0)
	root = append(append(root, undef...), undef...)
	root = append(root, b[leaf+hdr:leaf+hdr+ks]...) // key 0
	root = append(root, u64(leaf)...)
	root = append(root, b[leaf+hdr+half*es:leaf+hdr+half*es+ks]...) // key 65 = first key of leaf B
	root = append(root, u64(addrB)...)
	root = append(root, b[leaf+hdr+130*es:leaf+hdr+130*es+ks]...) // final key
	b = append(b, root...)
	// leaf A: 65 entries, right sibling B
	le.PutUint16(b[leaf+6:], half)
	copy(b[leaf+16:], u64(addrB))
	// the layout message holds the address of the index: the only 8-byte field equal to the old node address
	n := 0
	for i := 48; i+8 <= leaf; i++ {
		if le.Uint64(b[i:]) == uint64(leaf) {
			copy(b[i:], u64(addrRoot))
			n++
		}
	}
	if n != 1 {
		return fmt.Errorf("deep tree: %d references to the chunk index found, expected 1", n)
	}
	// end-of-file address of the version-2 superblock (bytes 28..35); its checksum is not verified by the reader
	if b[8] >= 2 {
		le.PutUint64(b[28:], uint64(len(b)))
	}
	return os.WriteFile(path, b, 0o644)
}

// ---- registry -------------------------------------------------------------------------------------

type registry struct {
	bases  map[string]*Base
	names  []string // all usable base names, sorted (corpus first, then gen)
	notes  []string
	gensha map[string]string
}

var (
	regOnce sync.Once
	reg     *registry
)

func newBase(name string, data []byte) *Base {
	b := &Base{Name: name, Data: data, Structs: scanStructs(data)}
	b.index()
	return b
}

func loadRegistry() *registry {
	regOnce.Do(func() {
		r := &registry{bases: map[string]*Base{}}
		root := filepath.Join(repoRoot(), "testdata")
		var tooBig, noSig int
		_ = filepath.WalkDir(root, func(p string, d os.DirEntry, err error) error {
			if err != nil || d.IsDir() {
				return nil
			}
			if !strings.HasSuffix(p, ".h5") && !strings.HasSuffix(p, ".hdf5") {
				return nil
			}
			fi, err := d.Info()
			if err != nil {
				return nil
			}
			if fi.Size() > maxBaseSize {
				tooBig++
				return nil
			}
			data, err := os.ReadFile(p)
			if err != nil {
				return nil
			}
			if len(data) < 8 || string(data[:8]) != string(hdfSig) {
				noSig++ // emptied files, user-block files: Open rejects them at byte 0
				return nil
			}
			rel, _ := filepath.Rel(root, p)
			name := "corpus/" + filepath.ToSlash(rel)
			r.bases[name] = newBase(name, data)
			return nil
		})
		r.notes = append(r.notes, fmt.Sprintf("corpus: %d base files <= 256 KiB with the signature at byte 0; %d larger files and %d files without the signature at byte 0 not used as bases", len(r.bases), tooBig, noSig))
		// library-written files
		dir := filepath.Join(vt.GetEnv().Scratch, "gen")
		_ = os.MkdirAll(dir, 0o755)
		for _, bl := range builders {
			p := filepath.Join(dir, strings.ReplaceAll(bl.name, "/", "_")+".h5")
			err := func() (err error) {
				defer func() {
					if x := recover(); x != nil {
						err = fmt.Errorf("writer panic: %v", x)
					}
				}()
				return bl.f(p)
			}()
			data, rerr := os.ReadFile(p)
			if rerr != nil || len(data) < 48 {
				r.notes = append(r.notes, fmt.Sprintf("library-written base %s not produced: %v %v", bl.name, err, rerr))
				continue
			}
			if err != nil {
				r.notes = append(r.notes, fmt.Sprintf("library-written base %s: writer reported %v (file kept)", bl.name, err))
			}
			r.bases[bl.name] = newBase(bl.name, data)
		}
		for _, k := range []string{"raw/v0", "raw/v2", "raw/v3"} {
			r.bases[k] = newBase(k, rawPrefix(k))
		}
		for n := range r.bases {
			r.names = append(r.names, n)
		}
		sort.Strings(r.names)
		reg = r
	})
	return reg
}
