package c07

// Sub-check "dupmsg": a second, disagreeing copy of a dataset's dataspace / datatype / layout message. No byte-level
// mutation produces an extra message of a kind; here, for every dataset header of a few small bases, every other message
// of that header that is large enough (NIL padding, attributes, fill value, modification time ...) is re-typed into a copy
// of the dataspace (and separately the datatype and the layout) message - identical, or with rank-1, rank+1, halved,
// doubled or unit dimensions / sizes. The worker's partial reads use a selection valid for the FIRST dataspace message.

import (
	"encoding/binary"
	"encoding/hex"
	"fmt"
	"strings"
	"testing"

	"github.com/scigolib/hdf5/verif/vt"
)

const subDup = "dupmsg"

type hdrMsg struct {
	off, hl, size int // message header offset, header length, body size
	kind          string
}

type hdrGroup struct {
	v2   bool
	msgs []hdrMsg
}

// headerGroups lists the object headers of a base with their messages (scan order: a header entry is followed by its messages).
func headerGroups(b *Base) []hdrGroup {
	var out []hdrGroup
	var cur *hdrGroup
	for _, st := range b.Structs {
		switch {
		case st.Kind == "OHv1" || st.Kind == "OHDR":
			out = append(out, hdrGroup{v2: st.Kind == "OHDR"})
			cur = &out[len(out)-1]
		case strings.HasPrefix(st.Kind, "msg:") && cur != nil:
			m := hdrMsg{off: st.Off, kind: st.Kind}
			if cur.v2 {
				if st.Off+3 > len(b.Data) {
					continue
				}
				m.size = int(binary.LittleEndian.Uint16(b.Data[st.Off+1:]))
			} else {
				if st.Off+4 > len(b.Data) {
					continue
				}
				m.size = int(binary.LittleEndian.Uint16(b.Data[st.Off+2:]))
			}
			m.hl = st.Len - m.size
			if m.hl < 4 || m.hl > 8 || st.Off+st.Len > len(b.Data) {
				continue
			}
			cur.msgs = append(cur.msgs, m)
		case st.Kind == "OCHK": // messages of a continuation block were listed with their header
		default:
			cur = nil
		}
	}
	return out
}

type altBody struct {
	name string
	body []byte
}

func le32(b []byte) uint64 { return uint64(binary.LittleEndian.Uint32(b)) }
func le64(b []byte) uint64 { return binary.LittleEndian.Uint64(b) }

// dataspaceAlts: altered copies of a simple dataspace message body (version 1 or 2).
func dataspaceAlts(body []byte) []altBody {
	out := []altBody{{"copy", append([]byte(nil), body...)}}
	if len(body) < 4 || (body[0] != 1 && body[0] != 2) {
		return out
	}
	rank := int(body[1])
	off := 8
	if body[0] == 2 {
		off = 4
	}
	if rank == 0 || rank > 8 {
		return out
	}
	w := 8
	if len(body) < off+rank*8 {
		w = 4
	}
	if len(body) < off+rank*w {
		return out
	}
	dims := make([]uint64, rank)
	for i := range dims {
		if w == 8 {
			dims[i] = le64(body[off+i*8:])
		} else {
			dims[i] = le32(body[off+i*4:])
		}
	}
	mk := func(ds []uint64) []byte {
		o := append([]byte(nil), body[:off]...)
		o[1] = byte(len(ds))
		o[2] &^= 1 // no maximum dimensions in the copy
		for _, v := range ds {
			var x [8]byte
			binary.LittleEndian.PutUint64(x[:], v)
			o = append(o, x[:w]...)
		}
		return o
	}
	mapDims := func(f func(uint64) uint64) []uint64 {
		r := make([]uint64, len(dims))
		for i, v := range dims {
			r[i] = f(v)
		}
		return r
	}
	out = append(out,
		altBody{"rank-1", mk(dims[:rank-1])},
		altBody{"rank-1-tail", mk(dims[1:])},
		altBody{"rank+1", mk(append(append([]uint64(nil), dims...), 2))},
		altBody{"dims/2", mk(mapDims(func(v uint64) uint64 {
			if v/2 == 0 {
				return 1
			}
			return v / 2
		}))},
		altBody{"dims*2", mk(mapDims(func(v uint64) uint64 { return v * 2 }))},
		altBody{"dims=1", mk(mapDims(func(uint64) uint64 { return 1 }))},
	)
	return out
}

func datatypeAlts(body []byte) []altBody {
	out := []altBody{{"copy", append([]byte(nil), body...)}}
	if len(body) < 8 {
		return out
	}
	sz := le32(body[4:])
	for _, a := range []struct {
		n string
		v uint64
	}{{"size/2", sz / 2}, {"size*2", sz * 2}, {"size=1", 1}, {"size=0", 0}} {
		o := append([]byte(nil), body...)
		binary.LittleEndian.PutUint32(o[4:], uint32(a.v))
		out = append(out, altBody{a.n, o})
	}
	return out
}

func layoutAlts(body []byte) []altBody {
	out := []altBody{{"copy", append([]byte(nil), body...)}}
	if len(body) < 3 || body[0] != 3 {
		return out
	}
	switch body[1] {
	case 1: // contiguous: address, size
		if len(body) >= 18 {
			for _, a := range []struct {
				n string
				f func(uint64) uint64
			}{{"size/2", func(v uint64) uint64 { return v / 2 }}, {"size*2", func(v uint64) uint64 { return v * 2 }}, {"size=0", func(uint64) uint64 { return 0 }}} {
				o := append([]byte(nil), body...)
				binary.LittleEndian.PutUint64(o[10:], a.f(le64(body[10:])))
				out = append(out, altBody{a.n, o})
			}
		}
	case 2: // chunked: rank, address, rank x 4-byte dims
		rank := int(body[2])
		if rank >= 1 && rank <= 9 && len(body) >= 11+4*rank {
			o := append([]byte(nil), body[:11+4*rank]...)
			o1 := append([]byte(nil), o[:11+4*(rank-1)]...)
			o1[2] = byte(rank - 1)
			out = append(out, altBody{"rank-1", o1})
			o2 := append(append([]byte(nil), o...), 1, 0, 0, 0)
			o2[2] = byte(rank + 1)
			out = append(out, altBody{"rank+1", o2})
			o3 := append([]byte(nil), o...)
			for i := 0; i < rank; i++ {
				v := le32(o[11+4*i:]) / 2
				if v == 0 {
					v = 1
				}
				binary.LittleEndian.PutUint32(o3[11+4*i:], uint32(v))
			}
			out = append(out, altBody{"dims/2", o3})
		}
	}
	return out
}

var dupBasesQuick = []string{"gen/v2_compact_attrs", "gen/v2_rich", "gen/v0_rich", "gen/v2_chunked", "gen/compact_only", "corpus/matrix_2x3.h5", "corpus/test_3d_chunked.h5",
	"corpus/v0.h5", "corpus/compound_test.h5", "corpus/with_groups.h5", "corpus/test_attributes.h5", "corpus/multiple_datasets.h5", "corpus/hdf5_official/2_d.h5"}
var dupBasesThorough = []string{"gen/v3_rich", "gen/v2_dense_attrs", "corpus/simple.h5", "corpus/various_types.h5", "corpus/string_test.h5", "corpus/hdf5_official/1_a.h5",
	"corpus/hdf5_official/h5diff_basic2.h5", "corpus/hdf5_official/tattr2.h5"}

func dupMessages(t *testing.T) {
	env := vt.GetEnv()
	rec := vt.Recorder(prop)
	e := newEngine()
	ses := &session{t: t, e: e, st: newStats(), rec: rec}
	files := append([]string(nil), dupBasesQuick...)
	if vt.Thorough() {
		files = append(files, dupBasesThorough...)
	}
	nWorkers := envInt("VERIF_C07_WORKERS", vt.N(4, 2))
	var jobs []Case
	nHdr := 0
	for _, name := range files {
		b, ok := e.reg.bases[name]
		if !ok {
			continue
		}
		w := newWorker(e.dir)
		fr := e.evalFast(w, b.Data, nil)
		w.stop()
		if fr.timedOut || len(fr.fails) > 0 {
			continue
		}
		for _, g := range headerGroups(b) {
			var srcs []hdrMsg
			for _, m := range g.msgs {
				if m.kind == "msg:dataspace" || m.kind == "msg:datatype" || m.kind == "msg:layout" {
					srcs = append(srcs, m)
				}
			}
			hasSpace := false
			for _, m := range srcs {
				hasSpace = hasSpace || m.kind == "msg:dataspace"
			}
			if !hasSpace {
				continue // not a dataset
			}
			nHdr++
			for _, src := range srcs {
				body := b.Data[src.off+src.hl : src.off+src.hl+src.size]
				var alts []altBody
				var typ byte
				switch src.kind {
				case "msg:dataspace":
					alts, typ = dataspaceAlts(body), 1
				case "msg:datatype":
					alts, typ = datatypeAlts(body), 3
				default:
					alts, typ = layoutAlts(body), 8
				}
				for _, victim := range g.msgs {
					if victim.off == src.off || victim.kind == "msg:dataspace" || victim.kind == "msg:datatype" || victim.kind == "msg:layout" || victim.kind == "msg:continuation" {
						continue
					}
					for _, a := range alts {
						if len(a.body) > victim.size {
							continue
						}
						// the victim's slot keeps its length: new header (type, the victim's size), the copy, zero padding
						nb := make([]byte, victim.hl+victim.size)
						if g.v2 {
							nb[0] = typ
							binary.LittleEndian.PutUint16(nb[1:], uint16(victim.size))
						} else {
							binary.LittleEndian.PutUint16(nb[0:], uint16(typ))
							binary.LittleEndian.PutUint16(nb[2:], uint16(victim.size))
						}
						copy(nb[victim.hl:], a.body)
						jobs = append(jobs, Case{Base: name, Muts: []Mut{{K: "bytes", Off: victim.off, B: hex.EncodeToString(nb),
							At: strings.TrimPrefix(victim.kind, "msg:") + "->" + strings.TrimPrefix(src.kind, "msg:"), VK: a.name}}})
					}
				}
			}
		}
	}
	var mine []Case
	for i, c := range jobs {
		if i%env.NShards == env.Shard {
			mine = append(mine, c)
		}
	}
	if env.Shard == 0 {
		rec.Note("dupmsg: %d base files, %d dataset headers, %d cases over all shards: every other sufficiently large message of the header re-typed into a copy of the dataspace / datatype / layout message (identical, rank-1, rank+1, dims or size halved / doubled / unit)", len(files), nHdr, len(jobs))
	}
	ses.parallel(nWorkers, len(mine), func(w *worker, i int) {
		c := mine[i]
		img, inside, err := e.image(c)
		if err != nil {
			return
		}
		m := c.Muts[0]
		kind := m.At[strings.Index(m.At, "->")+2:]
		viol, _ := e.processImg(w, subDup, c, img, nil, inside > 0, []string{"second=" + kind, "alteration=" + m.VK, fmt.Sprintf("victim=%s", m.At[:strings.Index(m.At, "->")])}, ses.st, rec)
		for _, f := range viol {
			ses.report(subDup, c, f)
		}
	})
	rec.SetExhaustive(subDup, true)
	ses.st.mu.Lock()
	dumpStats(ses.st, env, "-dupmsg")
	ses.st.mu.Unlock()
}
