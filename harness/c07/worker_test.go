package c07

// The worker side: a persistent child process (the test binary re-executed with VERIF_C07_WORKER=1)
// that opens one file per request and performs every read the public API offers, each under recover().
// Fatal runtime errors (out of memory under RLIMIT_AS, stack overflow under SetMaxStack, ...) kill the
// process; the driver sees the death and reads the stderr log.

import (
	"bufio"
	"encoding/json"
	"fmt"
	"os"
	"os/signal"
	"path/filepath"
	"runtime"
	"runtime/debug"
	"runtime/metrics"
	"strings"
	"syscall"
	"testing"

	hdf5 "github.com/scigolib/hdf5"
	"github.com/scigolib/hdf5/internal/core"
)

const (
	workerEnv     = "VERIF_C07_WORKER"
	asLimit       = 4 << 30  // RLIMIT_AS of a worker
	maxStack      = 64 << 20 // debug.SetMaxStack of a worker
	recycleSys    = 1 << 30  // a worker whose runtime holds more than this from the OS exits after answering
	maxObjects    = 256      // objects visited per file (harness cap, files are <= 256 KiB)
	maxChunkSteps = 512      // ChunkIterator steps per dataset (harness cap)
	bigAlloc      = 64 << 20 // one block of this size allocated while reading a file of <= 256 KiB is a failure ("bigalloc")
	profileRate   = 1 << 20  // heap profile sampling: every block >= 1 MiB is recorded with its stack
	libPrefix     = "github.com/scigolib/hdf5"
	harnessPrefix = "github.com/scigolib/hdf5/verif"
)

// Req is one request line (driver -> worker).
type Req struct {
	ID      int64   `json:"id"`
	Path    string  `json:"path"`
	Filters []FSpec `json:"filters,omitempty"` // non-empty: the file at Path is a raw filtered chunk to be decoded by this pipeline
}

// FSpec describes one filter of a pipeline (filter id, flags, client data).
type FSpec struct {
	ID    uint16   `json:"id"`
	Flags uint16   `json:"flags,omitempty"`
	CD    []uint32 `json:"cd,omitempty"`
}

// runStream decodes a raw chunk through a filter pipeline, as the chunk readers do.
func runStream(path string, fs []FSpec) Resp {
	cr := &caseRun{}
	data, err := os.ReadFile(path)
	if err != nil {
		cr.resp.OpenErr = err.Error()
		return cr.resp
	}
	msg := &core.FilterPipelineMessage{Version: 2, NumFilters: uint8(len(fs))}
	for _, f := range fs {
		msg.Filters = append(msg.Filters, core.Filter{ID: core.FilterID(f.ID), Flags: f.Flags, NumClientData: uint16(len(f.CD)), ClientData: f.CD})
	}
	cr.guard("FilterPipelineMessage.ApplyFilters", func() error {
		_, err := msg.ApplyFilters(data)
		if err != nil {
			cr.resp.OpenErr = err.Error()
			if len(cr.resp.OpenErr) > 200 {
				cr.resp.OpenErr = cr.resp.OpenErr[:200]
			}
		}
		return err
	})
	return cr.resp
}

// PanicRec is one recovered panic.
type PanicRec struct {
	Op     string   `json:"op"`
	Msg    string   `json:"msg"`
	Frames []string `json:"frames"` // function names, innermost first, library frames only
}

// Resp is one answer line (worker -> driver).
type Resp struct {
	ID      int64      `json:"id"`
	Big     []PanicRec `json:"big,omitempty"` // blocks >= bigAlloc allocated by one call (Msg = size class)
	OpenErr string     `json:"open_err,omitempty"`
	Ops     int        `json:"ops"`
	Errs    int        `json:"errs"`
	Objects int        `json:"objects"`
	Walked  int        `json:"walked,omitempty"` // objects File.Walk reported (all of them; Objects is what the worker then read)
	Panics  []PanicRec `json:"panics,omitempty"`
	Recycle bool       `json:"recycle,omitempty"`
	AllocMB int64      `json:"alloc_mb,omitempty"`
}

func isLibFrame(fn string) bool {
	return strings.HasPrefix(fn, libPrefix) && !strings.HasPrefix(fn, harnessPrefix)
}

// libFrames returns the library function names on the current (panicking) stack, innermost first.
func libFrames() []string {
	pcs := make([]uintptr, 256)
	n := runtime.Callers(2, pcs)
	fr := runtime.CallersFrames(pcs[:n])
	var out []string
	for {
		f, more := fr.Next()
		if isLibFrame(f.Function) {
			// "function@file:line"; the location is informational (triage), never part of a signature
			out = append(out, fmt.Sprintf("%s@%s:%d", f.Function, filepath.Base(f.File), f.Line))
		}
		if !more {
			break
		}
	}
	if len(out) > 24 {
		out = out[:24]
	}
	return out
}

type caseRun struct {
	resp Resp
	stop bool // a big allocation was seen: the rest of the case would run in a polluted address space
}

var allocSample = []metrics.Sample{{Name: "/gc/heap/allocs:bytes"}}

func allocBytes() uint64 {
	metrics.Read(allocSample)
	if allocSample[0].Value.Kind() == metrics.KindUint64 {
		return allocSample[0].Value.Uint64()
	}
	return 0
}

type profKey [32]uintptr

var profSeen = map[profKey][2]int64{}

// bigBlocks consults the heap profile for blocks >= bigAlloc allocated since the previous call.
func bigBlocks(op string) []PanicRec {
	runtime.GC() // publishes the allocations made so far into the profile
	recs := make([]runtime.MemProfileRecord, 256)
	for {
		n, ok := runtime.MemProfile(recs, true)
		if ok {
			recs = recs[:n]
			break
		}
		recs = make([]runtime.MemProfileRecord, n+64)
	}
	var out []PanicRec
	for i := range recs {
		r := &recs[i]
		k := profKey(r.Stack0)
		prev := profSeen[k]
		dB, dO := r.AllocBytes-prev[0], r.AllocObjects-prev[1]
		profSeen[k] = [2]int64{r.AllocBytes, r.AllocObjects}
		if dO <= 0 || dB/dO < bigAlloc {
			continue
		}
		var frames []string
		fr := runtime.CallersFrames(r.Stack())
		for {
			f, more := fr.Next()
			if isLibFrame(f.Function) {
				frames = append(frames, fmt.Sprintf("%s@%s:%d", f.Function, filepath.Base(f.File), f.Line))
			}
			if !more {
				break
			}
		}
		if len(frames) > 24 {
			frames = frames[:24]
		}
		out = append(out, PanicRec{Op: op, Msg: fmt.Sprintf("block of %d MiB", (dB/dO)>>20), Frames: frames})
	}
	return out
}

// guard runs one API call under recover() and checks afterwards whether it allocated a disproportionate block.
func (cr *caseRun) guard(op string, f func() error) {
	if cr.stop {
		return
	}
	cr.resp.Ops++
	a0 := allocBytes()
	defer func() {
		if allocBytes()-a0 >= bigAlloc {
			if big := bigBlocks(op); len(big) > 0 {
				cr.resp.Big = append(cr.resp.Big, big...)
				cr.stop = true
			}
		}
	}()
	defer func() {
		if p := recover(); p != nil {
			msg := fmt.Sprint(p)
			if len(msg) > 300 {
				msg = msg[:300]
			}
			if len(cr.resp.Panics) < 8 {
				cr.resp.Panics = append(cr.resp.Panics, PanicRec{Op: op, Msg: msg, Frames: libFrames()})
			}
		}
	}()
	if err := f(); err != nil {
		cr.resp.Errs++
	}
}

func small(dims []uint64, stride bool) (start, count, str []uint64) {
	start = make([]uint64, len(dims))
	count = make([]uint64, len(dims))
	str = make([]uint64, len(dims))
	for i, d := range dims {
		str[i] = 1
		switch {
		case d == 0:
			count[i] = 0
		case d >= 4 && stride:
			start[i], count[i], str[i] = 1, 2, 2
		case d >= 2:
			count[i] = 2
		default:
			count[i] = 1
		}
	}
	return
}

func (cr *caseRun) attrs(op string, get func() ([]*core.Attribute, error)) {
	var as []*core.Attribute
	cr.guard(op, func() error {
		var err error
		as, err = get()
		return err
	})
	for i, a := range as {
		if i >= 32 || a == nil {
			break
		}
		a := a
		cr.guard("Attribute.ReadValue", func() error { _, err := a.ReadValue(); return err })
	}
}

func (cr *caseRun) dataset(f *hdf5.File, d *hdf5.Dataset) {
	cr.guard("Dataset.Info", func() error { _, err := d.Info(); return err })
	cr.attrs("Dataset.Attributes", d.Attributes)
	var names []string
	cr.guard("Dataset.ListAttributes", func() error {
		var err error
		names, err = d.ListAttributes()
		return err
	})
	if len(names) > 0 {
		cr.guard("Dataset.ReadAttribute", func() error { _, err := d.ReadAttribute(names[len(names)-1]); return err })
	}
	cr.guard("Dataset.Read", func() error { _, err := d.Read(); return err })
	cr.guard("Dataset.ReadStrings", func() error { _, err := d.ReadStrings(); return err })
	cr.guard("Dataset.ReadCompound", func() error { _, err := d.ReadCompound(); return err })

	// dimensions, as the library itself obtains them
	var dims []uint64
	cr.guard("core.ReadObjectHeader+Dataspace", func() error {
		h, err := core.ReadObjectHeader(f.Reader(), d.Address(), f.Superblock())
		if err != nil {
			return err
		}
		for _, m := range h.Messages {
			if m.Type == core.MsgDataspace {
				ds, err := core.ParseDataspaceMessage(m.Data)
				if err != nil {
					return err
				}
				dims = ds.Dimensions
				break
			}
		}
		return nil
	})
	if len(dims) > 0 && len(dims) <= 32 {
		st, ct, _ := small(dims, false)
		cr.guard("Dataset.ReadSlice", func() error { _, err := d.ReadSlice(st, ct); return err })
		st2, ct2, sr2 := small(dims, true)
		cr.guard("Dataset.ReadHyperslab", func() error {
			_, err := d.ReadHyperslab(&hdf5.HyperslabSelection{Start: st2, Count: ct2, Stride: sr2})
			return err
		})
		// selections sized from the (possibly altered) dimensions of the header: the whole extent, and the whole last row
		zero := make([]uint64, len(dims))
		all := append([]uint64(nil), dims...)
		cr.guard("Dataset.ReadSlice(whole)", func() error { _, err := d.ReadSlice(zero, all); return err })
		rowStart := make([]uint64, len(dims))
		rowCount := make([]uint64, len(dims))
		for i, n := range dims {
			if i == len(dims)-1 {
				rowCount[i] = n
			} else {
				rowCount[i] = 1
				if n > 0 {
					rowStart[i] = n - 1
				}
			}
		}
		cr.guard("Dataset.ReadHyperslab(last row)", func() error {
			_, err := d.ReadHyperslab(&hdf5.HyperslabSelection{Start: rowStart, Count: rowCount})
			return err
		})
		// blocks: one block of 2 in the leading dimension, and one block of 2 x 2 in the last two dimensions
		one := func() []uint64 {
			o := make([]uint64, len(dims))
			for i := range o {
				o[i] = 1
			}
			return o
		}
		blk := func(which func(i int) bool) []uint64 {
			b := one()
			for i, n := range dims {
				if which(i) && n >= 2 {
					b[i] = 2
				}
			}
			return b
		}
		b1 := blk(func(i int) bool { return i == 0 })
		cr.guard("Dataset.ReadHyperslab(block lead)", func() error {
			_, err := d.ReadHyperslab(&hdf5.HyperslabSelection{Start: make([]uint64, len(dims)), Count: one(), Stride: b1, Block: b1})
			return err
		})
		b2 := blk(func(i int) bool { return i >= len(dims)-2 })
		cr.guard("Dataset.ReadHyperslab(block tail)", func() error {
			_, err := d.ReadHyperslab(&hdf5.HyperslabSelection{Start: make([]uint64, len(dims)), Count: one(), Stride: b2, Block: b2})
			return err
		})
	}
	var it *hdf5.ChunkIterator
	cr.guard("Dataset.ChunkIterator", func() error {
		var err error
		it, err = d.ChunkIterator()
		return err
	})
	if it != nil {
		cr.guard("ChunkIterator.iterate", func() error {
			var first error
			for n := 0; n < maxChunkSteps && it.Next(); n++ {
				if _, err := it.Chunk(); err != nil && first == nil {
					first = err
				}
			}
			if err := it.Err(); err != nil && first == nil {
				first = err
			}
			return first
		})
	}
}

func runFile(path string) Resp {
	cr := &caseRun{}
	var f *hdf5.File
	cr.guard("Open", func() error {
		var err error
		f, err = hdf5.Open(path)
		if err != nil {
			cr.resp.OpenErr = err.Error()
			if len(cr.resp.OpenErr) > 200 {
				cr.resp.OpenErr = cr.resp.OpenErr[:200]
			}
		}
		return err
	})
	if f == nil {
		return cr.resp
	}
	defer func() {
		defer func() { _ = recover() }()
		_ = f.Close()
	}()
	var objs []hdf5.Object
	cr.guard("File.Walk", func() error {
		f.Walk(func(p string, o hdf5.Object) {
			cr.resp.Walked++
			if len(objs) < maxObjects {
				objs = append(objs, o)
			}
		})
		return nil
	})
	cr.resp.Objects = len(objs)
	for _, o := range objs {
		if cr.stop {
			break
		}
		switch x := o.(type) {
		case *hdf5.Group:
			cr.guard("Group.Children", func() error { _ = x.Children(); _ = x.Name(); return nil })
			cr.attrs("Group.Attributes", x.Attributes)
		case *hdf5.Dataset:
			cr.dataset(f, x)
		case *hdf5.NamedDatatype:
			cr.guard("NamedDatatype.Datatype", func() error { _ = x.Datatype(); _ = x.Name(); return nil })
		}
	}
	return cr.resp
}

// TestWorker is the worker entry point; it does nothing unless started by the driver.
func TestWorker(t *testing.T) {
	if os.Getenv(workerEnv) != "1" {
		t.Skip("worker entry point (started by the C07 driver)")
	}
	lim := syscall.Rlimit{Cur: asLimit, Max: asLimit}
	if err := syscall.Setrlimit(syscall.RLIMIT_AS, &lim); err != nil {
		fmt.Fprintf(os.Stderr, "worker: setrlimit: %v\n", err)
	}
	debug.SetMaxStack(maxStack)
	runtime.MemProfileRate = profileRate
	debug.SetTraceback("all")

	// SIGUSR1: dump all goroutine stacks to stderr without dying (the driver samples a slow case this way)
	sig := make(chan os.Signal, 4)
	signal.Notify(sig, syscall.SIGUSR1)
	go func() {
		buf := make([]byte, 1<<20)
		for range sig {
			n := runtime.Stack(buf, true)
			fmt.Fprintf(os.Stderr, "\n=== C07-SAMPLE-BEGIN ===\n%s\n=== C07-SAMPLE-END ===\n", buf[:n])
		}
	}()

	in := bufio.NewReaderSize(os.Stdin, 1<<16)
	out := bufio.NewWriter(os.Stdout)
	var ms runtime.MemStats
	for {
		line, err := in.ReadBytes('\n')
		if err != nil {
			os.Exit(0)
		}
		var rq Req
		if json.Unmarshal(line, &rq) != nil {
			continue
		}
		runtime.ReadMemStats(&ms)
		before := ms.TotalAlloc
		fmt.Fprintf(os.Stderr, "=== C07-CASE %d ===\n", rq.ID)
		var rs Resp
		if len(rq.Filters) > 0 {
			rs = runStream(rq.Path, rq.Filters)
		} else {
			rs = runFile(rq.Path)
		}
		rs.ID = rq.ID
		runtime.ReadMemStats(&ms)
		rs.AllocMB = int64((ms.TotalAlloc - before) >> 20)
		if ms.Sys > recycleSys || len(rs.Big) > 0 {
			rs.Recycle = true
		}
		b, _ := json.Marshal(rs)
		out.Write(b)
		out.WriteByte('\n')
		out.Flush()
		if rs.Recycle {
			os.Exit(0)
		}
	}
}
