package c07

// Driver side of the worker protocol: starting/restarting worker processes, sending a file, waiting for the
// answer under CPU-time budgets, sampling stacks of a slow worker, classifying deaths.

import (
	"bufio"
	"bytes"
	"encoding/json"
	"fmt"
	"io"
	"os"
	"os/exec"
	"path/filepath"
	"regexp"
	"sort"
	"strconv"
	"strings"
	"sync/atomic"
	"syscall"
	"time"
)

// Failure is one observed failure of one case.
type Failure struct {
	Loc    string   `json:"loc,omitempty"` // file:line of the innermost library frame (informational)
	Kind   string   `json:"kind"`   // panic | death-oom | death-stack | death-fatal | death-other | hang
	Fn     string   `json:"fn"`     // signature function(s), short form
	Class  string   `json:"class"`  // message class
	Op     string   `json:"op"`     // API call (panics)
	Msg    string   `json:"msg"`    // raw message (first line)
	Frames []string `json:"frames"` // library frames, innermost first (short form)
}

func (f Failure) Sig() string { return f.Kind + "|" + f.Fn + "|" + f.Class }

func short(fn string) string {
	s := strings.TrimPrefix(fn, libPrefix)
	s = strings.TrimPrefix(s, "/")
	if strings.HasPrefix(s, ".") {
		s = "hdf5" + s
	}
	return s
}

// frames are "function@file:line"; fnOf drops the location
func fnOf(frame string) string {
	if i := strings.IndexByte(frame, '@'); i >= 0 {
		return frame[:i]
	}
	return frame
}

func locOf(frame string) string {
	if i := strings.IndexByte(frame, '@'); i >= 0 {
		return frame[i+1:]
	}
	return ""
}

var reCannot = regexp.MustCompile(`cannot allocate ([0-9]+)-byte block`)

// anchorFn: for failure kinds whose innermost frame is incidental (non-termination sampled at an arbitrary moment, gradual
// memory exhaustion dying at an arbitrary allocation) a known finding names an anchor function (the owner of the loop);
// if one is on the stack it becomes the signature function.
func anchorFn(kind string, frames []string) (string, bool) {
	loadKnown()
	for _, fr := range frames {
		if knownAnchor[kind+"|"+fnOf(fr)] {
			return fnOf(fr), true
		}
	}
	return "", false
}

var (
	reDigits  = regexp.MustCompile(`-?\b(0x[0-9a-fA-F]+|[0-9]+)\b`)
	reBracket = regexp.MustCompile(`\[[^\]]*\]`)
)

// msgClass normalises a panic message: numbers and index expressions removed.
func msgClass(m string) string {
	if i := strings.IndexByte(m, '\n'); i >= 0 {
		m = m[:i]
	}
	m = strings.TrimPrefix(m, "runtime error: ")
	m = reBracket.ReplaceAllString(m, "")
	m = reDigits.ReplaceAllString(m, "N")
	m = strings.Join(strings.Fields(m), " ")
	if len(m) > 80 {
		m = m[:80]
	}
	return m
}

type worker struct {
	id      int
	dir     string
	cmd     *exec.Cmd
	stdin   io.WriteCloser
	lines   chan []byte // one element per answer line; closed at EOF
	errPath string
	nextID  int64
	alive   bool
	starts  int
	ticks   float64
	caseOff int64 // size of the stderr log when the current case was sent
	filt    []FSpec // set for the next request: decode the file as a filtered chunk
}

var workerSeq int64

func clockTicks() float64 { return 100 } // USER_HZ on Linux

func newWorker(dir string) *worker {
	return &worker{id: int(atomic.AddInt64(&workerSeq, 1)), dir: dir, ticks: clockTicks()}
}

func (w *worker) start() error {
	bin := os.Getenv("VERIF_BIN")
	if bin == "" || !fileExists(bin) {
		bin = os.Args[0]
	}
	w.starts++
	w.errPath = filepath.Join(w.dir, fmt.Sprintf("worker%d.stderr", w.id))
	ef, err := os.Create(w.errPath)
	if err != nil {
		return err
	}
	defer ef.Close()
	cmd := exec.Command(bin, "-test.run=^TestWorker$", "-test.timeout=0")
	cmd.Env = append(os.Environ(), workerEnv+"=1", "GOMAXPROCS=2", "GOTRACEBACK=all", "VERIF_REPLAY=", "VERIF_KF=", "VERIF_REPORT=")
	cmd.Stderr = ef
	cmd.Dir = w.dir
	cmd.SysProcAttr = &syscall.SysProcAttr{Pdeathsig: syscall.SIGKILL}
	in, err := cmd.StdinPipe()
	if err != nil {
		return err
	}
	out, err := cmd.StdoutPipe()
	if err != nil {
		return err
	}
	if err := cmd.Start(); err != nil {
		return err
	}
	w.cmd, w.stdin = cmd, in
	w.lines = make(chan []byte, 4)
	w.alive = true
	go func(ch chan []byte, r io.Reader) {
		br := bufio.NewReaderSize(r, 1<<16)
		for {
			line, err := br.ReadBytes('\n')
			if len(line) > 0 && line[0] == '{' {
				ch <- line
			}
			if err != nil {
				close(ch)
				return
			}
		}
	}(w.lines, out)
	return nil
}

func fileExists(p string) bool { _, err := os.Stat(p); return err == nil }

func (w *worker) kill() {
	if w.cmd != nil && w.cmd.Process != nil {
		_ = w.cmd.Process.Kill()
		_ = w.stdin.Close()
		for range w.lines { // drain until EOF
		}
		_ = w.cmd.Wait()
	}
	w.alive = false
}

func (w *worker) stop() {
	if w.alive {
		_ = w.stdin.Close()
		done := make(chan struct{})
		go func() { _ = w.cmd.Wait(); close(done) }()
		select {
		case <-done:
		case <-time.After(3 * time.Second):
			_ = w.cmd.Process.Kill()
			<-done
		}
		w.alive = false
	}
}

// cpuSeconds returns user+system CPU time consumed by the worker process so far.
func (w *worker) cpuSeconds() float64 {
	b, err := os.ReadFile(fmt.Sprintf("/proc/%d/stat", w.cmd.Process.Pid))
	if err != nil {
		return 0
	}
	s := string(b)
	i := strings.LastIndexByte(s, ')')
	if i < 0 {
		return 0
	}
	f := strings.Fields(s[i+1:])
	if len(f) < 13 {
		return 0
	}
	ut, _ := strconv.ParseFloat(f[11], 64)
	st, _ := strconv.ParseFloat(f[12], 64)
	return (ut + st) / w.ticks
}

// budget of one attempt: the attempt times out when the worker has burnt cpu seconds of CPU on the case
// or wall seconds have passed (a blocked worker), whichever comes first.
type budget struct {
	cpu, wall float64
}

type attempt struct {
	resp     *Resp
	died     bool
	timedOut bool
	stderr   string  // text the worker wrote to stderr during this case (death, samples)
	cpu      float64 // CPU seconds consumed
	wallS    float64
	samples  [][]string // library frames per stack sample, outermost first
}

// stderrSince returns what the worker wrote to stderr after the marker of case id.
func (w *worker) stderrSince(id int64) string {
	fh, err := os.Open(w.errPath)
	if err != nil {
		return ""
	}
	defer fh.Close()
	if w.caseOff > 0 {
		_, _ = fh.Seek(w.caseOff, io.SeekStart)
	}
	b, err := io.ReadAll(fh)
	if err != nil {
		return ""
	}
	mk := []byte(fmt.Sprintf("=== C07-CASE %d ===\n", id))
	if i := bytes.LastIndex(b, mk); i >= 0 {
		b = b[i+len(mk):]
	}
	if len(b) > 1<<20 {
		b = append(b[:1<<19:1<<19], b[len(b)-(1<<19):]...)
	}
	return string(b)
}

// exec1 runs one file in this worker. early, if non-nil, is consulted once when earlyCPU seconds of CPU are used:
// it receives stack samples and may ask to abandon the attempt (known hang).
func (w *worker) exec1(path string, bd budget, earlyCPU float64, early func(samples [][]string) bool) (at attempt) {
	if !w.alive {
		if err := w.start(); err != nil {
			at.died = true
			at.stderr = "cannot start worker: " + err.Error()
			return
		}
	}
	w.nextID++
	id := w.nextID
	rq, _ := json.Marshal(Req{ID: id, Path: path, Filters: w.filt})
	cpu0 := w.cpuSeconds()
	t0 := time.Now()
	w.caseOff = 0
	if fi, err := os.Stat(w.errPath); err == nil {
		w.caseOff = fi.Size()
	}
	if _, err := w.stdin.Write(append(rq, '\n')); err != nil {
		w.kill()
		at.died = true
		at.stderr = w.stderrSince(id)
		return
	}
	tick := time.NewTicker(25 * time.Millisecond)
	defer tick.Stop()
	earlyDone := early == nil
	for {
		select {
		case line, ok := <-w.lines:
			if !ok {
				_ = w.cmd.Wait()
				w.alive = false
				at.died = true
				at.stderr = w.stderrSince(id)
				at.wallS = time.Since(t0).Seconds()
				return
			}
			var rs Resp
			if json.Unmarshal(line, &rs) != nil || rs.ID != id {
				continue
			}
			at.resp = &rs
			at.wallS = time.Since(t0).Seconds()
			if rs.Recycle {
				for range w.lines {
				}
				_ = w.cmd.Wait()
				w.alive = false
			}
			return
		case <-tick.C:
			cpu := w.cpuSeconds() - cpu0
			wall := time.Since(t0).Seconds()
			if !earlyDone && cpu >= earlyCPU {
				earlyDone = true
				at.samples = w.sample(id, 4)
				if early(at.samples) {
					at.timedOut = true
					at.cpu, at.wallS = cpu, wall
					at.stderr = w.stderrSince(id)
					w.kill()
					return
				}
			}
			if cpu >= bd.cpu || wall >= bd.wall {
				at.timedOut = true
				at.cpu, at.wallS = cpu, wall
				at.samples = w.sample(id, 5)
				at.stderr = w.stderrSince(id)
				w.kill()
				return
			}
		}
	}
}

// sample asks the worker n times for a dump of its goroutine stacks (SIGUSR1) and returns, per dump, the library
// frames of the goroutine running the case, outermost first.
func (w *worker) sample(id int64, n int) [][]string {
	var out [][]string
	for i := 0; i < n; i++ {
		before := strings.Count(w.stderrSince(id), "=== C07-SAMPLE-END ===")
		_ = w.cmd.Process.Signal(syscall.SIGUSR1)
		for k := 0; k < 40; k++ {
			time.Sleep(10 * time.Millisecond)
			if strings.Count(w.stderrSince(id), "=== C07-SAMPLE-END ===") > before {
				break
			}
		}
		time.Sleep(15 * time.Millisecond)
	}
	txt := w.stderrSince(id)
	for _, blk := range strings.Split(txt, "=== C07-SAMPLE-BEGIN ===") {
		e := strings.Index(blk, "=== C07-SAMPLE-END ===")
		if e < 0 {
			continue
		}
		fr := caseGoroutineFrames(blk[:e])
		if len(fr) > 0 {
			// reverse: outermost first
			for i, j := 0, len(fr)-1; i < j; i, j = i+1, j-1 {
				fr[i], fr[j] = fr[j], fr[i]
			}
			out = append(out, fr)
		}
	}
	return out
}

// caseGoroutineFrames parses a textual traceback and returns the library frames (short names, innermost first)
// of the goroutine that runs the case (the one with c07.runFile on its stack); if none is identified, the first
// goroutine with library frames.
func caseGoroutineFrames(tb string) []string {
	var best, first []string
	for _, blk := range strings.Split(tb, "\n\n") {
		if !strings.Contains(blk, "goroutine ") {
			continue
		}
		var fr []string
		isCase := false
		lastLib := false
		for _, ln := range strings.Split(blk, "\n") {
			if lastLib && len(ln) > 0 && ln[0] == '\t' && len(fr) > 0 && !strings.Contains(fr[len(fr)-1], "@") {
				loc := strings.TrimSpace(ln)
				if i := strings.IndexByte(loc, ' '); i > 0 {
					loc = loc[:i]
				}
				fr[len(fr)-1] += "@" + filepath.Base(loc)
			}
			lastLib = false
			if strings.HasPrefix(ln, "...") && strings.Contains(ln, "frames elided") {
				fr = append(fr, elidedMark)
				continue
			}
			if ln == "" || ln[0] == '\t' || ln[0] == ' ' || strings.HasPrefix(ln, "goroutine ") || strings.HasPrefix(ln, "created by") {
				continue
			}
			i := strings.LastIndexByte(ln, '(')
			if i <= 0 {
				continue
			}
			fn := ln[:i]
			if strings.Contains(fn, "c07.runFile") {
				isCase = true
			}
			if isLibFrame(fn) {
				fr = append(fr, short(fn))
				lastLib = true
			}
		}
		if isCase && best == nil {
			best = fr
		}
		if first == nil && len(fr) > 0 {
			first = fr
		}
	}
	if best != nil {
		return best
	}
	return first
}

// classifyDeath turns the stderr text of a dead worker into a failure.
func classifyDeath(stderr string) Failure {
	// stack samples taken while the case was merely slow precede the fatal traceback in the log: they show where the case
	// was then, not where it died
	if i := strings.LastIndex(stderr, "=== C07-SAMPLE-END ==="); i >= 0 {
		stderr = stderr[i+len("=== C07-SAMPLE-END ==="):]
	}
	f := Failure{Kind: "death-other"}
	lines := strings.Split(stderr, "\n")
	for _, ln := range lines {
		if strings.HasPrefix(ln, "fatal error: ") || strings.HasPrefix(ln, "runtime: out of memory") || strings.HasPrefix(ln, "runtime: goroutine stack exceeds") || strings.HasPrefix(ln, "panic: ") {
			if f.Msg == "" {
				f.Msg = ln
			}
		}
	}
	low := stderr
	switch {
	case strings.Contains(low, "stack overflow") || strings.Contains(low, "goroutine stack exceeds"):
		f.Kind = "death-stack"
		f.Class = "stack overflow"
	case strings.Contains(low, "out of memory") || strings.Contains(low, "cannot allocate memory") || strings.Contains(low, "errno=12"):
		f.Kind = "death-oom"
		f.Class = "out of memory"
		// a small request failing in a full address space: memory was exhausted gradually (an accumulating loop); the
		// function that happened to allocate last is incidental
		if m := reCannot.FindStringSubmatch(low); m == nil {
			f.Kind, f.Class = "death-exhaust", "gradual exhaustion"
		} else if n, err := strconv.ParseUint(m[1], 10, 64); err == nil && n < bigAlloc {
			f.Kind, f.Class = "death-exhaust", "gradual exhaustion"
		}
	case strings.Contains(low, "fatal error: "):
		f.Kind = "death-fatal"
		i := strings.Index(low, "fatal error: ")
		m := low[i+len("fatal error: "):]
		if j := strings.IndexByte(m, '\n'); j >= 0 {
			m = m[:j]
		}
		f.Class = msgClass(m)
	default:
		f.Class = "no diagnostics"
	}
	fr := caseGoroutineFrames(stderr)
	for _, x := range fr {
		if x != elidedMark && len(f.Frames) < 24 {
			f.Frames = append(f.Frames, x)
		}
	}
	if f.Kind == "death-stack" {
		f.Fn = cycleSet(fr, true)
	} else if cs := cycleSet(fr, false); f.Kind == "death-exhaust" && cs != "" {
		f.Fn = cs // memory ran out inside a recursion before the stack limit was reached
	} else if a, ok := anchorFn(f.Kind, fr); ok && f.Kind == "death-exhaust" {
		f.Fn = a
	} else if len(fr) > 0 && fr[0] != elidedMark {
		f.Fn = fnOf(fr[0])
		f.Loc = locOf(fr[0])
	}
	if f.Fn == "" {
		f.Fn = "?"
	}
	return f
}

const elidedMark = "(frames elided)"

// cycleSet names a recursion by the sorted set of library functions that occur at least 3 times in the dumped part
// of the stack.
func cycleSet(fr []string, fallback bool) string {
	cnt := map[string]int{}
	for _, f := range fr {
		if f == elidedMark {
			break // only the innermost part of the stack: the outermost frames are the way into the cycle
		}
		cnt[fnOf(f)]++
	}
	min := 3
	if !fallback {
		min = 8 // exhaustion inside a recursion: demand a long run of repeated frames, deep nesting alone is not a cycle
	}
	var set []string
	for f, n := range cnt {
		if n >= min {
			set = append(set, f)
		}
	}
	if len(set) == 0 && len(fr) > 0 && fallback {
		return fnOf(fr[0])
	}
	sort.Strings(set)
	return strings.Join(set, "+")
}

// hangFailure derives the signature of a non-terminating case from stack samples: the deepest library frame common
// to all samples (the owner of the loop, or a callee in which every sample was taken).
func hangFailure(samples [][]string) Failure {
	f := Failure{Kind: "hang", Class: "no termination", Fn: "?"}
	if len(samples) == 0 {
		return f
	}
	// a (slow) unbounded recursion: the samples show long runs of the same frames; the outermost frames are elided
	// from such dumps, so the samples cannot be aligned - name the recursion by its cycle instead
	cyc := map[string]bool{}
	nCyc := 0
	for _, s := range samples {
		inner := make([]string, 0, len(s))
		for i := len(s) - 1; i >= 0; i-- {
			inner = append(inner, s[i])
		}
		if cs := cycleSet(inner, false); cs != "" {
			nCyc++
			for _, fn := range strings.Split(cs, "+") {
				cyc[fn] = true
			}
		}
	}
	if nCyc*2 > len(samples) {
		var set []string
		for fn := range cyc {
			set = append(set, fn)
		}
		sort.Strings(set)
		f.Fn = strings.Join(set, "+")
		f.Class = "no termination"
		for i := len(samples[0]) - 1; i >= 0 && len(f.Frames) < 24; i-- {
			if samples[0][i] != elidedMark {
				f.Frames = append(f.Frames, samples[0][i])
			}
		}
		return f
	}
	common := append([]string(nil), samples[0]...)
	for _, s := range samples[1:] {
		n := 0
		for n < len(common) && n < len(s) && fnOf(common[n]) == fnOf(s[n]) {
			n++
		}
		common = common[:n]
	}
	for len(common) > 0 && common[len(common)-1] == elidedMark {
		common = common[:len(common)-1]
	}
	if len(common) > 0 {
		f.Fn = fnOf(common[len(common)-1])
		f.Loc = locOf(common[len(common)-1])
	} else if len(samples[0]) > 0 {
		f.Fn = fnOf(samples[0][0])
	}
	// frames innermost first, from the common prefix
	for i := len(common) - 1; i >= 0; i-- {
		f.Frames = append(f.Frames, common[i])
	}
	if a, ok := anchorFn("hang", f.Frames); ok {
		f.Fn = a
	}
	return f
}
