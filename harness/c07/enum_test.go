package c07

// Sub-check "fields": exhaustive small-value enumeration over the metadata bytes of a few small base files.
// The random campaign sets fields to boundary classes; lengths and counts that only misbehave for a narrow band of small
// values (a heap segment size of 9..21, a message count of 3, a rank of 2) need every small value tried at every
// metadata byte. The independent decoder (harness/indep) says which byte ranges are metadata.

import (
	"fmt"
	"sort"
	"strings"
	"testing"

	"github.com/scigolib/hdf5/verif/indep"
	"github.com/scigolib/hdf5/verif/vt"
)

const subFields = "fields"

// metadata extent kinds of the independent decoder whose bytes are enumerated (raw data, heap payloads and chunk data are not)
var dataKinds = map[string]bool{"contiguous-data": true, "chunk": true, "local-heap-data": true, "fractal-heap-dblock": true,
	"fractal-heap-huge": true, "fixed-array-dblock": true, "ext-array-dblock": true}

// metaOffsets returns the sorted metadata byte offsets of a base image, labelled by structure kind.
func metaOffsets(b *Base, owner string) (offs []int, kind map[int]string) {
	kind = map[int]string{}
	add := func(lo, hi int, k string) {
		if hi > len(b.Data) {
			hi = len(b.Data)
		}
		if hi-lo > 768 {
			hi = lo + 768 // long blocks: the head (header + first entries)
		}
		for o := lo; o < hi; o++ {
			if _, ok := kind[o]; !ok {
				offs = append(offs, o)
			}
			kind[o] = k
		}
	}
	func() {
		defer func() { _ = recover() }()
		f, _ := indep.Decode(b.Data, indep.TolerateAll())
		if f == nil {
			return
		}
		for _, ex := range f.Extents {
			if dataKinds[ex.Kind] || ex.End <= ex.Start || ex.Start >= uint64(len(b.Data)) {
				continue
			}
			if owner != "" && ex.Owner != owner {
				continue // object-targeted enumeration in a larger file: only that object's structures
			}
			add(int(ex.Start), int(ex.End), ex.Kind)
		}
	}()
	// the harness's own scan as a complement (structures the decoder did not reach or refused)
	for _, st := range b.Structs {
		if owner != "" {
			break
		}
		n := st.Len
		if n == 0 {
			n = 64
		}
		if _, ok := kind[st.Off]; !ok {
			add(st.Off, st.Off+n, st.Kind)
		}
	}
	sort.Ints(offs)
	return offs, kind
}

// fieldValues lists the mutations tried at one offset: every small value in the low byte (wider fields with zero high bytes
// are covered by that too), the neighbours of the original byte, byte patterns, and for fields whose high bytes are in use
// the same small values written over 2, 4 and 8 bytes.
// wrapValues are element counts / sizes whose product with an element size of 1, 2, 4, 8 or 16 wraps around 2^64 (2^32)
// to a small number: 2^64/size and its neighbours, and the powers of two just below.
func wrapValues(w int) []uint64 {
	var out []uint64
	seen := map[uint64]bool{}
	add := func(v uint64) {
		v &= ones(w)
		if !seen[v] {
			seen[v] = true
			out = append(out, v)
		}
	}
	bits := uint(8 * w)
	for _, sh := range []uint{0, 1, 2, 3, 4} { // size = 1<<sh
		q := uint64(1) << (bits - sh) // 2^bits / size (0 for size 1: the all-ones neighbour below stands for it)
		add(q - 1)
		if sh > 0 {
			add(q)
			add(q + 1)
		}
	}
	add(uint64(1)<<(bits-3) + 1)
	if w == 4 {
		// 32-bit counts are widened before they are multiplied in most places: the powers of two and the top value suffice
		out = []uint64{1 << 29, 1<<29 + 1, 1 << 30, 1<<30 + 1, 1 << 31, 1<<31 + 1, 1<<32 - 1}
	}
	return out
}

// fieldValues: wrap adds the wrap-around set over 4 and 8 bytes (used inside object headers, where counts and sizes are multiplied).
func fieldValues(d []byte, o int, small int, wrap bool) []Mut {
	var out []Mut
	orig := d[o]
	seen := map[uint64]bool{uint64(orig): true}
	add1 := func(v int, vk string) {
		if v < 0 || v > 255 || seen[uint64(v)] {
			return
		}
		seen[uint64(v)] = true
		out = append(out, Mut{K: "set", Off: o, W: 1, V: uint64(v), VK: vk})
	}
	for v := 0; v <= small; v++ {
		add1(v, "enum-small")
	}
	add1(int(orig)-1, "orig-1")
	add1(int(orig)+1, "orig+1")
	add1(0x7F, "0x7f")
	add1(0x80, "0x80")
	add1(0xFF, "0xff")
	for _, w := range []int{2, 4, 8} {
		if o+w > len(d) {
			break
		}
		hi := false
		for i := w / 2; i < w; i++ {
			if d[o+i] != 0 {
				hi = true
			}
		}
		if !hi {
			continue // the upper half is zero: narrower writes already produce these images
		}
		for v := 0; v <= small; v++ {
			out = append(out, Mut{K: "set", Off: o, W: w, V: uint64(v), VK: "enum-small"})
		}
		out = append(out, Mut{K: "set", Off: o, W: w, V: ones(w), VK: "max"})
	}
	if wrap {
		for _, w := range []int{4, 8} {
			if o+w > len(d) {
				break
			}
			for _, v := range wrapValues(w) {
				out = append(out, Mut{K: "set", Off: o, W: w, V: v, VK: "wrap"})
			}
		}
	}
	return out
}

// files with variable-length strings (attributes, compound members) that the reader resolves through a global heap collection
var gcolBasesQuick = []string{"corpus/with_attributes.h5", "corpus/simple.h5", "corpus/vlen_strings.h5", "corpus/hdf5_official/tvlstr.h5"}
var gcolBasesThorough = []string{"corpus/hdf5_official/h5diff_attr1.h5", "corpus/mathcad_document.h5", "corpus/hdf5_official/h5diff_attr2.h5"}

// gcolCases walks the global heap collections of an image (signature GCOL, version 1, collection size, then objects of
// id(2) refcount(2) reserved(4) size(8) data padded to 8) and returns for every object - the free-space object included - the
// size field set to each edge value, alone and together with id := 0; and the id set to small values alone.
func gcolCases(b *Base) [][]Mut {
	d := b.Data
	le := func(o int) uint64 {
		var v uint64
		for k := 7; k >= 0; k-- {
			v = v<<8 | uint64(d[o+k])
		}
		return v
	}
	var out [][]Mut
	for _, st := range b.Structs {
		if st.Kind != "GCOL" || st.Off+16 > len(d) || d[st.Off+4] != 1 {
			continue
		}
		csize := le(st.Off + 8)
		if csize < 16 || uint64(st.Off)+csize > uint64(len(d)) {
			continue
		}
		end := st.Off + int(csize)
		n := 0
		for p := st.Off + 16; p+16 <= end && n < 64; n++ {
			id := int(d[p]) | int(d[p+1])<<8
			size := le(p + 8)
			remaining := uint64(end - p - 16)
			vals := []uint64{1 << 63, 1<<63 + 8, 1<<63 - 8, ^uint64(0) - 15, ^uint64(0) - 23, ^uint64(0) - 7, ^uint64(0), 1 << 62, 1<<62 + 8, 1 << 61, 1 << 32,
				remaining, remaining + 8, remaining - 8, remaining + 1, csize, csize + 8, csize - 8, 0, 1, 7, 8, 9, 16, size + 8, size - 8, size + 1, size * 2}
			seen := map[uint64]bool{size: true}
			for _, v := range vals {
				if seen[v] {
					continue
				}
				seen[v] = true
				at := fmt.Sprintf("GCOL-object%d+8", n)
				sz := Mut{K: "set", Off: p + 8, W: 8, V: v, At: at, VK: "gcol-size"}
				out = append(out, []Mut{sz})
				if id != 0 {
					out = append(out, []Mut{sz, {K: "set", Off: p, W: 2, V: 0, At: fmt.Sprintf("GCOL-object%d+0", n), VK: "zero"}})
				}
			}
			for _, v := range []uint64{0, 1, 2, 3, 0xFFFF} {
				if int(v) != id {
					out = append(out, []Mut{{K: "set", Off: p, W: 2, V: v, At: fmt.Sprintf("GCOL-object%d+0", n), VK: "gcol-id"}})
				}
			}
			if id == 0 || size > remaining {
				break // free space: the rest of the collection
			}
			p += 16 + int((size+7)&^7)
		}
	}
	return out
}

// objTarget: one object of a larger corpus file whose structures are enumerated like a small file's (compact datasets exist
// only in such files: the library cannot write the compact layout).
type objTarget struct{ base, owner string }

var objTargetsQuick = []objTarget{{"gen/compact_only", "/compact"}, {"gen/v2_rank3", "/c3"}}
var objTargetsThorough = []objTarget{{"gen/v2_rank3", "/k3"}, {"corpus/hdf5_official/h5repack_layout.h5", "/dset_compact"}}

var enumFilesQuick = []string{"corpus/v0.h5", "corpus/compound_test.h5", "corpus/v2.h5", "corpus/with_groups.h5"}
var enumFilesThorough = []string{"corpus/string_test.h5", "corpus/test_attributes.h5", "corpus/multiple_datasets.h5", "corpus/test_3d_chunked.h5",
	"gen/v0_basic", "gen/v2_chunked", "gen/v2_compound_strings"}

func fieldsEnum(t *testing.T) {
	env := vt.GetEnv()
	rec := vt.Recorder(prop)
	e := newEngine()
	ses := &session{t: t, e: e, st: newStats(), rec: rec}
	files := append([]string(nil), enumFilesQuick...)
	small := 64
	if vt.Thorough() {
		files = append(files, enumFilesThorough...)
	}
	nWorkers := envInt("VERIF_C07_WORKERS", vt.N(4, 2))
	type job struct {
		base string
		m    Mut
		more []Mut // further mutations of the same case (field pairs)
	}
	var jobs []job
	nOff := 0
	type src struct{ base, owner string }
	var srcs []src
	for _, name := range files {
		srcs = append(srcs, src{name, ""})
	}
	targets := append([]objTarget(nil), objTargetsQuick...)
	if vt.Thorough() {
		targets = append(targets, objTargetsThorough...)
	}
	for _, tg := range targets {
		srcs = append(srcs, src{tg.base, tg.owner})
	}
	for _, sc := range srcs {
		name := sc.base
		b, ok := e.reg.bases[name]
		if !ok {
			continue
		}
		// the intact file must be handled; otherwise it is the campaign's business (known finding or violation)
		w := newWorker(e.dir)
		fr := e.evalFast(w, b.Data, nil)
		w.stop()
		if fr.timedOut || len(fr.fails) > 0 {
			continue
		}
		offs, kind := metaOffsets(b, sc.owner)
		for _, o := range offs {
			nOff++
			inHeader := strings.HasPrefix(kind[o], "ohdr") || strings.HasPrefix(kind[o], "msg:") || kind[o] == "OHDR" || kind[o] == "OHv1" || kind[o] == "OCHK"
			for _, m := range fieldValues(b.Data, o, small, inHeader) {
				m.At = fmt.Sprintf("%s@%d", kind[o], o)
				jobs = append(jobs, job{base: name, m: m})
			}
		}
	}
	// global heap collections of files whose variable-length strings are resolved through them: object id / size pairs
	gbases := append([]string(nil), gcolBasesQuick...)
	if vt.Thorough() {
		gbases = append(gbases, gcolBasesThorough...)
	}
	nG := 0
	for _, name := range gbases {
		b, ok := e.reg.bases[name]
		if !ok {
			continue
		}
		w := newWorker(e.dir)
		fr := e.evalFast(w, b.Data, nil)
		w.stop()
		if fr.timedOut || len(fr.fails) > 0 {
			continue
		}
		for _, ms := range gcolCases(b) {
			nG++
			jobs = append(jobs, job{base: name, m: ms[0], more: ms[1:]})
		}
	}
	// this shard's share: every NShards-th job
	var mine []job
	for i, j := range jobs {
		if i%env.NShards == env.Shard {
			mine = append(mine, j)
		}
	}
	if env.Shard == 0 {
		rec.Note("fields: %d base files + %d single objects of larger files (compact datasets), %d metadata byte offsets, %d (offset, width, value) cases over all shards: every value 0..%d, original+-1, 0x7F, 0x80, 0xFF in each byte, 0..%d / all-ones over 2, 4, 8 bytes where the upper half of the field is in use, and inside object headers the wrap-around set (2^bits/size and neighbours for size 1..16) over 4 and 8 bytes; plus %d global-heap cases (%d files): every object's size := wrap / edge values, alone and with the object's id := 0 (free space)", len(files), len(targets), nOff, len(jobs), small, small, nG, len(gbases))
	}
	ses.parallel(nWorkers, len(mine), func(w *worker, i int) {
		j := mine[i]
		c := Case{Base: j.base, Muts: append([]Mut{j.m}, j.more...)}
		img, inside, err := e.image(c)
		if err != nil {
			return
		}
		k := j.m.At
		if x := strings.IndexByte(k, '@'); x > 0 {
			k = k[:x]
		}
		viol, _ := e.processImg(w, subFields, c, img, nil, inside > 0, []string{"hit=" + k, "value=" + j.m.VK, fmt.Sprintf("w=%d", j.m.W)}, ses.st, rec)
		for _, f := range viol {
			ses.report(subFields, c, f)
		}
	})
	rec.SetExhaustive(subFields, true)
	ses.st.mu.Lock()
	dumpStats(ses.st, env, "-fields")
	ses.st.mu.Unlock()
}
