package c07

// Sub-check "msgcut": header messages and the blocks embedded in attribute messages that end early. The size field of every
// message of every object header of a few small bases is reduced to 0..12 (and size-1, size-8) - with the freed tail turned
// into a NIL message so that the message chain of the header stays intact, and also raw - and, for dataspace messages, the
// body is in addition started as "version 2, rank 0" / "version 1, rank 0" (the shortest legal forms). For attribute
// messages the embedded datatype-size and dataspace-size fields are set to 0..8, again with the embedded dataspace started
// as version 2 / 1 rank 0. Single-field enumeration sets a size OR a version byte; these parsers need both.

import (
	"encoding/binary"
	"encoding/hex"
	"fmt"
	"strings"
	"testing"

	"github.com/scigolib/hdf5/verif/vt"
)

const subCut = "msgcut"

var cutBasesQuick = []string{"gen/v2_compact_attrs", "gen/v2_basic", "gen/v0_basic", "gen/v2_chunked", "corpus/v0.h5", "corpus/v2.h5", "corpus/compound_test.h5",
	"corpus/test_attributes.h5", "corpus/with_groups.h5", "corpus/matrix_2x3.h5"}
var cutBasesThorough = []string{"gen/v2_rich", "gen/v0_rich", "gen/v3_rich", "corpus/with_attributes.h5", "corpus/simple.h5", "corpus/test_attr_int32.h5",
	"corpus/string_test.h5", "corpus/multiple_datasets.h5", "corpus/various_types.h5"}

func msgCut(t *testing.T) {
	env := vt.GetEnv()
	rec := vt.Recorder(prop)
	e := newEngine()
	ses := &session{t: t, e: e, st: newStats(), rec: rec}
	files := append([]string(nil), cutBasesQuick...)
	if vt.Thorough() {
		files = append(files, cutBasesThorough...)
	}
	nWorkers := envInt("VERIF_C07_WORKERS", vt.N(4, 2))
	var jobs []Case
	nMsg := 0
	prefixes := []struct {
		name string
		b    []byte
	}{{"as-is", nil}, {"v2-rank0", []byte{2, 0, 0}}, {"v1-rank0", []byte{1, 0, 0}}, {"v2-rank0-null", []byte{2, 0, 0, 2}}}
	for _, name := range files {
		b, ok := e.reg.bases[name]
		if !ok {
			continue
		}
		w := newWorker(e.dir)
		fr := e.evalFast(w, b.Data, nil)
		w.stop()
		if fr.timedOut || len(fr.fails) > 0 {
			continue
		}
		d := b.Data
		for _, g := range headerGroups(b) {
			for _, m := range g.msgs {
				if m.kind == "msg:nil" || m.size == 0 {
					continue
				}
				nMsg++
				kind := strings.TrimPrefix(m.kind, "msg:")
				sizeOff, sizeW := m.off+2, 2
				if g.v2 {
					sizeOff = m.off + 1
				}
				var ns []int
				for n := 0; n <= 12 && n < m.size; n++ {
					ns = append(ns, n)
				}
				for _, n := range []int{m.size - 1, m.size - 8} {
					if n > 12 {
						ns = append(ns, n)
					}
				}
				pf := prefixes[:1]
				if m.kind == "msg:dataspace" {
					pf = prefixes
				}
				for _, n := range ns {
					for _, p := range pf {
						if len(p.b) > m.size {
							continue
						}
						base := []Mut{{K: "set", Off: sizeOff, W: sizeW, V: uint64(n), At: kind + "+size", VK: "cut"}}
						if p.b != nil {
							base = append(base, Mut{K: "bytes", Off: m.off + m.hl, B: hex.EncodeToString(p.b), At: kind + "+body", VK: p.name})
						}
						jobs = append(jobs, Case{Base: name, Muts: base}) // raw: the next message is read from inside the old body
						// chain kept: the rest of the old slot becomes a NIL message
						adv := n
						if !g.v2 {
							adv = (n + 7) &^ 7
						}
						rest := m.size - adv - m.hl
						if rest >= 0 {
							nh := make([]byte, m.hl)
							if g.v2 {
								binary.LittleEndian.PutUint16(nh[1:], uint16(rest))
							} else {
								binary.LittleEndian.PutUint16(nh[2:], uint16(rest))
							}
							jobs = append(jobs, Case{Base: name, Muts: append(append([]Mut(nil), base...),
								Mut{K: "bytes", Off: m.off + m.hl + adv, B: hex.EncodeToString(nh), At: kind + "+tail", VK: "nil-filler"})})
						}
					}
				}
				if m.kind != "msg:attribute" || m.size < 8 {
					continue
				}
				// attribute message: version, flags, name size, datatype size, dataspace size [, encoding]; name, datatype, dataspace
				body := m.off + m.hl
				ver := int(d[body])
				nameSz := int(binary.LittleEndian.Uint16(d[body+2:]))
				dtSz := int(binary.LittleEndian.Uint16(d[body+4:]))
				pad := func(x int) int {
					if ver < 3 {
						return (x + 7) &^ 7
					}
					return x
				}
				hdr := 8
				if ver >= 3 {
					hdr = 9
				}
				dsOff := body + hdr + pad(nameSz) + pad(dtSz)
				if ver < 1 || ver > 3 || dsOff+4 > body+m.size {
					continue
				}
				for n := 0; n <= 8; n++ {
					for _, p := range prefixes {
						ms := []Mut{{K: "set", Off: body + 6, W: 2, V: uint64(n), At: "attribute+dataspace-size", VK: "cut"}}
						if p.b != nil {
							ms = append(ms, Mut{K: "bytes", Off: dsOff, B: hex.EncodeToString(p.b), At: "attribute+dataspace", VK: p.name})
						}
						jobs = append(jobs, Case{Base: name, Muts: ms})
					}
					jobs = append(jobs, Case{Base: name, Muts: []Mut{{K: "set", Off: body + 4, W: 2, V: uint64(n), At: "attribute+datatype-size", VK: "cut"}}})
					jobs = append(jobs, Case{Base: name, Muts: []Mut{{K: "set", Off: body + 2, W: 2, V: uint64(n), At: "attribute+name-size", VK: "cut"}}})
				}
			}
		}
	}
	var mine []Case
	for i, c := range jobs {
		if i%env.NShards == env.Shard {
			mine = append(mine, c)
		}
	}
	if env.Shard == 0 {
		rec.Note("msgcut: %d base files, %d header messages, %d cases over all shards: message size := 0..12, size-1, size-8 (raw and with the tail turned into a NIL message), dataspace bodies also started as version 2 / 1 rank 0; attribute messages: embedded name / datatype / dataspace size := 0..8, embedded dataspace started as version 2 / 1 rank 0", len(files), nMsg, len(jobs))
	}
	ses.parallel(nWorkers, len(mine), func(w *worker, i int) {
		c := mine[i]
		img, inside, err := e.image(c)
		if err != nil {
			return
		}
		labels := []string{"hit=msg:" + strings.SplitN(c.Muts[0].At, "+", 2)[0], fmt.Sprintf("nmuts=%d", len(c.Muts))}
		if len(c.Muts) > 1 {
			labels = append(labels, "with="+c.Muts[1].VK)
		}
		viol, _ := e.processImg(w, subCut, c, img, nil, inside > 0, labels, ses.st, rec)
		for _, f := range viol {
			ses.report(subCut, c, f)
		}
	})
	rec.SetExhaustive(subCut, true)
	ses.st.mu.Lock()
	dumpStats(ses.st, env, "-msgcut")
	ses.st.mu.Unlock()
}
