// Package obs records everything the public read API reports for a file ("observation"), as plain
// comparable data. Every call runs under recover; panics become errors tagged "PANIC".
package obs

import (
	"encoding/hex"
	"fmt"
	"math"
	"reflect"
	"runtime/debug"
	"sort"
	"strings"

	hdf5 "github.com/scigolib/hdf5"
	"github.com/scigolib/hdf5/internal/core"
)

type Attr struct {
	Name     string   `json:"name"`
	Class    int      `json:"class"`
	Size     uint32   `json:"size"`
	BitField uint32   `json:"bits"`
	Dims     []uint64 `json:"dims"`
	Data     string   `json:"data"`  // hex of raw Data
	Value    string   `json:"value"` // canonical rendering of ReadValue()
	ValueErr string   `json:"value_err,omitempty"`
}

type Dataset struct {
	Path      string   `json:"path"`
	Addr      uint64   `json:"addr"`
	InfoErr   string   `json:"info_err,omitempty"`
	Class     int      `json:"class"`
	Size      uint32   `json:"size"`
	BitField  uint32   `json:"bits"`
	TypeProps string   `json:"type_props,omitempty"` // hex of datatype properties
	Dims      []uint64 `json:"dims"`
	MaxDims   []uint64 `json:"max_dims,omitempty"`
	Layout    int      `json:"layout"`
	ChunkDims []uint64 `json:"chunk,omitempty"`
	Info      string   `json:"info"`
	RefCount  uint32   `json:"refcount"`

	Read        []uint64 `json:"read,omitempty"` // float64 bit patterns
	ReadErr     string   `json:"read_err,omitempty"`
	Strings     []string `json:"strings,omitempty"`
	StringsErr  string   `json:"strings_err,omitempty"`
	Compound    []string `json:"compound,omitempty"`
	CompoundErr string   `json:"compound_err,omitempty"`
	Slice       string   `json:"slice,omitempty"` // Options.Slices: rendering of two partial reads
	SliceErr    string   `json:"slice_err,omitempty"`
	Sels        []SelObs `json:"sels,omitempty"` // Options.SelSeeds: generated partial reads
	ChunkIter   *ChunkIterObs `json:"chunk_iter,omitempty"` // Options.SelSeeds, chunked datasets: what the chunk iterator walks

	Attrs    []Attr `json:"attrs"`
	AttrsErr string `json:"attrs_err,omitempty"`
}

type Child struct {
	Name string `json:"name"`
	Kind string `json:"kind"` // group dataset datatype other
}

type Group struct {
	Path     string  `json:"path"`
	Children []Child `json:"children"`
	Attrs    []Attr  `json:"attrs"`
	AttrsErr string  `json:"attrs_err,omitempty"`
}

type File struct {
	OpenErr   string              `json:"open_err,omitempty"`
	SBVersion int                 `json:"sb"`
	Groups    map[string]*Group   `json:"groups"`
	Datasets  map[string]*Dataset `json:"datasets"`
	Order     []string            `json:"order"` // walk order of paths
	Panics    []string            `json:"panics,omitempty"`
}

// Sel is a hyperslab selection (all four tuples given).
type Sel struct {
	Start, Count, Stride, Block []uint64
	Slice                       bool // stride = block = 1: also expressible through ReadSlice
}

// ChunkIterObs is one pass of Dataset.ChunkIterator: the scaled coordinates in iteration order and, per chunk, the box
// of elements it covers with the values Chunk() returned (the first MaxChunks chunks only).
type ChunkIterObs struct {
	Err    string     `json:"err,omitempty"`
	Total  int        `json:"total"`
	Coords [][]uint64 `json:"coords,omitempty"`
	Chunks []SelObs   `json:"chunks,omitempty"`
}

const maxIterChunks = 96

// SelObs is one generated partial read: the values as float64 bit patterns, or the error.
type SelObs struct {
	Sel  Sel      `json:"sel"`
	Bits []uint64 `json:"bits,omitempty"`
	Err  string   `json:"err,omitempty"`
}

// GenSel derives an in-bounds selection on dims from a seed (splitmix steps; a pure function of its arguments).
func GenSel(seed uint64, dims []uint64) Sel {
	next := func() uint64 {
		seed += 0x9E3779B97F4A7C15
		z := seed
		z = (z ^ (z >> 30)) * 0xBF58476D1CE4E5B9
		z = (z ^ (z >> 27)) * 0x94D049BB133111EB
		return z ^ (z >> 31)
	}
	r := len(dims)
	s := Sel{Start: make([]uint64, r), Count: make([]uint64, r), Stride: make([]uint64, r), Block: make([]uint64, r), Slice: true}
	plain := next()%4 == 0 // a quarter of the selections are plain boxes (ReadSlice)
	for i, n := range dims {
		if n == 0 {
			s.Count[i], s.Stride[i], s.Block[i] = 0, 1, 1
			continue
		}
		if next()%3 == 0 {
			s.Start[i], s.Count[i], s.Stride[i], s.Block[i] = 0, n, 1, 1
			continue
		}
		b := uint64(1)
		if !plain && n > 1 {
			b = 1 + next()%minU(n, 3)
		}
		st := b
		if !plain {
			st = b + next()%4
		}
		start := next() % (n - b + 1)
		maxCount := (n-start-b)/st + 1
		cnt := 1 + next()%maxCount
		if plain {
			// a box: count elements, stride 1
			b, st = 1, 1
			cnt = 1 + next()%(n-start)
		}
		s.Start[i], s.Count[i], s.Stride[i], s.Block[i] = start, cnt, st, b
		if st != 1 || b != 1 {
			s.Slice = false
		}
	}
	return s
}

func minU(a, b uint64) uint64 {
	if a < b {
		return a
	}
	return b
}

// Indices lists the row-major element indices of dims that the selection picks, in the order a hyperslab read returns them.
func (s Sel) Indices(dims []uint64) []int {
	r := len(dims)
	coords := make([][]uint64, r)
	total := 1
	for i := 0; i < r; i++ {
		for c := uint64(0); c < s.Count[i]; c++ {
			for b := uint64(0); b < s.Block[i]; b++ {
				coords[i] = append(coords[i], s.Start[i]+c*s.Stride[i]+b)
			}
		}
		total *= len(coords[i])
	}
	if r == 0 || total == 0 {
		return nil
	}
	out := make([]int, 0, total)
	idx := make([]int, r)
	for {
		lin := uint64(0)
		for i := 0; i < r; i++ {
			lin = lin*dims[i] + coords[i][idx[i]]
		}
		out = append(out, int(lin))
		i := r - 1
		for ; i >= 0; i-- {
			idx[i]++
			if idx[i] < len(coords[i]) {
				break
			}
			idx[i] = 0
		}
		if i < 0 {
			return out
		}
	}
}

// toBits converts the typed slice a partial read returns into float64 bit patterns (the same widening Read() applies).
func toBits(v any) ([]uint64, bool) {
	rv := reflect.ValueOf(v)
	if rv.Kind() != reflect.Slice {
		return nil, false
	}
	out := make([]uint64, rv.Len())
	for i := range out {
		e := rv.Index(i)
		switch {
		case e.CanInt():
			out[i] = math.Float64bits(float64(e.Int()))
		case e.CanUint():
			out[i] = math.Float64bits(float64(e.Uint()))
		case e.CanFloat():
			out[i] = math.Float64bits(e.Float())
		default:
			return nil, false
		}
	}
	return out, true
}

// Options limit how much is read.
type Options struct {
	SkipData bool // do not call Read/ReadStrings/ReadCompound
	// MaxDataBytes: datasets whose logical extent (elements x element size) exceeds it are not read (0 = 256 MiB, < 0 = no limit)
	MaxDataBytes int64
	Slices       bool     // also read two fixed partial selections per dataset (one column; every second element of the last dimension)
	SelSeeds     []uint64 // per seed one generated in-bounds selection per dataset, read through ReadHyperslab (and ReadSlice when it is a plain box)
}

func safe(f *File, what string, fn func()) {
	defer func() {
		if p := recover(); p != nil {
			st := string(debug.Stack())
			if len(st) > 1500 {
				st = st[:1500]
			}
			f.Panics = append(f.Panics, fmt.Sprintf("%s: %v\n%s", what, p, st))
		}
	}()
	fn()
}

func errStr(err error) string {
	if err == nil {
		return ""
	}
	s := err.Error()
	if s == "" {
		s = "error"
	}
	return s
}

// Render gives a canonical, order-stable text for a value returned by ReadValue/ReadCompound.
func Render(v any) string {
	switch x := v.(type) {
	case nil:
		return "nil"
	case float64:
		return fmt.Sprintf("f64:%016x", math.Float64bits(x))
	case float32:
		return fmt.Sprintf("f32:%08x", math.Float32bits(x))
	case []float64:
		var sb strings.Builder
		sb.WriteString("[]f64:")
		for _, e := range x {
			fmt.Fprintf(&sb, "%016x,", math.Float64bits(e))
		}
		return sb.String()
	case []float32:
		var sb strings.Builder
		sb.WriteString("[]f32:")
		for _, e := range x {
			fmt.Fprintf(&sb, "%08x,", math.Float32bits(e))
		}
		return sb.String()
	case string:
		return fmt.Sprintf("str:%q", x)
	case []string:
		return fmt.Sprintf("[]str:%q", x)
	case []byte:
		return "bytes:" + hex.EncodeToString(x)
	case map[string]interface{}:
		keys := make([]string, 0, len(x))
		for k := range x {
			keys = append(keys, k)
		}
		sort.Strings(keys)
		var sb strings.Builder
		sb.WriteString("{")
		for _, k := range keys {
			fmt.Fprintf(&sb, "%q=%s;", k, Render(x[k]))
		}
		sb.WriteString("}")
		return sb.String()
	}
	rv := reflect.ValueOf(v)
	switch rv.Kind() {
	case reflect.Slice, reflect.Array:
		var sb strings.Builder
		fmt.Fprintf(&sb, "%T:[", v)
		for i := 0; i < rv.Len(); i++ {
			sb.WriteString(Render(rv.Index(i).Interface()))
			sb.WriteString(",")
		}
		sb.WriteString("]")
		return sb.String()
	case reflect.Map:
		keys := rv.MapKeys()
		ks := make([]string, len(keys))
		m := map[string]reflect.Value{}
		for i, k := range keys {
			ks[i] = fmt.Sprint(k.Interface())
			m[ks[i]] = rv.MapIndex(k)
		}
		sort.Strings(ks)
		var sb strings.Builder
		fmt.Fprintf(&sb, "%T:{", v)
		for _, k := range ks {
			fmt.Fprintf(&sb, "%q=%s;", k, Render(m[k].Interface()))
		}
		sb.WriteString("}")
		return sb.String()
	}
	return fmt.Sprintf("%T:%v", v, v)
}

func attrsOf(f *File, what string, get func() ([]*core.Attribute, error)) (out []Attr, errs string) {
	out = []Attr{}
	safe(f, what+" attributes", func() {
		as, err := get()
		if err != nil {
			errs = errStr(err)
			return
		}
		// a caller that lists first and looks at values later: the same listing is asked for once more (and dropped) before
		// anything of the first one is used
		_, _ = get()
		for _, a := range as {
			if a == nil {
				out = append(out, Attr{Name: "<nil attribute>"})
				continue
			}
			o := Attr{Name: a.Name, Data: hex.EncodeToString(a.Data)}
			if a.Datatype != nil {
				o.Class, o.Size, o.BitField = int(a.Datatype.Class), a.Datatype.Size, a.Datatype.ClassBitField
			} else {
				o.Class = -1
			}
			if a.Dataspace != nil {
				o.Dims = append([]uint64{}, a.Dataspace.Dimensions...)
			}
			safe(f, what+" attribute "+a.Name+" ReadValue", func() {
				v, err := a.ReadValue()
				if err != nil {
					o.ValueErr = errStr(err)
					// a caller that asks once more after an error gets an error or the value, as the first time
					if v2, err2 := a.ReadValue(); err2 == nil {
						o.Value, o.ValueErr = Render(v2), ""
					}
				} else {
					o.Value = Render(v)
					if v2, err2 := a.ReadValue(); err2 != nil || Render(v2) != o.Value {
						o.ValueErr = fmt.Sprintf("MISMATCH: second ReadValue gives %v / %v, the first gave %s", v2, err2, o.Value)
					}
				}
			})
			out = append(out, o)
		}
	})
	return out, errs
}

// Read observes the file at path through the public API.
func Read(path string, opt Options) *File {
	f := &File{Groups: map[string]*Group{}, Datasets: map[string]*Dataset{}}
	var hf *hdf5.File
	safe(f, "Open", func() {
		var err error
		hf, err = hdf5.Open(path)
		if err != nil {
			f.OpenErr = errStr(err)
			hf = nil
		}
	})
	if hf == nil {
		if f.OpenErr == "" {
			f.OpenErr = "PANIC in Open"
		}
		return f
	}
	defer func() { safe(f, "Close", func() { _ = hf.Close() }) }()
	f.SBVersion = int(hf.SuperblockVersion())
	type item struct {
		path string
		obj  hdf5.Object
	}
	var items []item
	safe(f, "Walk", func() {
		hf.Walk(func(p string, o hdf5.Object) { items = append(items, item{p, o}) })
	})
	for _, it := range items {
		p := it.path
		if len(p) > 1 {
			p = strings.TrimSuffix(p, "/")
		}
		f.Order = append(f.Order, p)
		switch o := it.obj.(type) {
		case *hdf5.Group:
			g := &Group{Path: p, Children: []Child{}}
			safe(f, p+" Children", func() {
				for _, c := range o.Children() {
					k := "other"
					switch c.(type) {
					case *hdf5.Group:
						k = "group"
					case *hdf5.Dataset:
						k = "dataset"
					case *hdf5.NamedDatatype:
						k = "datatype"
					}
					g.Children = append(g.Children, Child{Name: c.Name(), Kind: k})
				}
			})
			g.Attrs, g.AttrsErr = attrsOf(f, p, o.Attributes)
			if _, dup := f.Groups[p]; dup {
				p = p + "#dup"
				g.Path = p
			}
			f.Groups[p] = g
		case *hdf5.Dataset:
			d := &Dataset{Path: p, Addr: o.Address()}
			safe(f, p+" info", func() {
				hdr, err := core.ReadObjectHeader(hf.Reader(), o.Address(), hf.Superblock())
				if err != nil {
					d.InfoErr = errStr(err)
					return
				}
				d.RefCount = hdr.GetReferenceCount()
				info, err := core.ReadDatasetInfo(hdr, hf.Superblock())
				if err != nil {
					d.InfoErr = errStr(err)
					return
				}
				if info.Datatype != nil {
					d.Class, d.Size, d.BitField = int(info.Datatype.Class), info.Datatype.Size, info.Datatype.ClassBitField
					d.TypeProps = hex.EncodeToString(info.Datatype.Properties)
				}
				if info.Dataspace != nil {
					d.Dims = append([]uint64{}, info.Dataspace.Dimensions...)
					d.MaxDims = append([]uint64{}, info.Dataspace.MaxDims...)
				}
				if info.Layout != nil {
					d.Layout = int(info.Layout.Class)
					d.ChunkDims = append([]uint64{}, info.Layout.ChunkSize...)
				}
			})
			safe(f, p+" Info", func() {
				s, err := o.Info()
				if err != nil {
					d.Info = "ERR:" + errStr(err)
				} else {
					d.Info = s
				}
			})
			tooBig := false
			if lim := opt.MaxDataBytes; lim >= 0 {
				if lim == 0 {
					lim = 256 << 20
				}
				n := uint64(d.Size)
				if n == 0 {
					n = 1
				}
				for _, x := range d.Dims {
					if x != 0 && n > uint64(lim)/x {
						tooBig = true
						break
					}
					n *= x
				}
				if tooBig {
					// the library materialises the whole logical extent (C07's open finding): not something an observation of
					// values should trigger on files whose extent is declared in the terabytes
					d.ReadErr, d.StringsErr, d.CompoundErr = "skipped: logical extent above the observation limit", "skipped: logical extent above the observation limit", "skipped: logical extent above the observation limit"
				}
			}
			if !opt.SkipData && !tooBig {
				safe(f, p+" Read", func() {
					v, err := o.Read()
					if err != nil {
						d.ReadErr = errStr(err)
						return
					}
					d.Read = make([]uint64, len(v))
					for i, x := range v {
						d.Read[i] = math.Float64bits(x)
					}
				})
				safe(f, p+" ReadStrings", func() {
					v, err := o.ReadStrings()
					if err != nil {
						d.StringsErr = errStr(err)
						return
					}
					d.Strings = append([]string{}, v...)
				})
				safe(f, p+" ReadCompound", func() {
					v, err := o.ReadCompound()
					if err != nil {
						d.CompoundErr = errStr(err)
						return
					}
					d.Compound = make([]string, len(v))
					for i, x := range v {
						d.Compound[i] = Render(map[string]interface{}(x))
					}
				})
			}
			if opt.Slices && len(d.Dims) > 0 && d.Dims[len(d.Dims)-1] >= 2 {
				safe(f, p+" ReadSlice", func() {
					r := len(d.Dims)
					start, count := make([]uint64, r), append([]uint64{}, d.Dims...)
					start[r-1], count[r-1] = 1, 1
					for i := 0; i < r; i++ {
						if count[i] == 0 {
							return
						}
					}
					v1, err := o.ReadSlice(start, count)
					if err != nil {
						d.SliceErr = errStr(err)
						return
					}
					sel := &hdf5.HyperslabSelection{Start: make([]uint64, r), Count: append([]uint64{}, d.Dims...), Stride: make([]uint64, r), Block: make([]uint64, r)}
					for i := 0; i < r; i++ {
						sel.Stride[i], sel.Block[i] = 1, 1
					}
					sel.Stride[r-1], sel.Count[r-1] = 2, (d.Dims[r-1]+1)/2
					v2, err := o.ReadHyperslab(sel)
					if err != nil {
						d.SliceErr = errStr(err)
						return
					}
					d.Slice = Render(v1) + " | " + Render(v2)
				})
			}
			if len(d.Dims) > 0 && NumSelectable(d.Dims) {
				for _, sd := range opt.SelSeeds {
					h := sd
					for _, ch := range []byte(p) {
						h = h*1099511628211 + uint64(ch)
					}
					h = h*1099511628211 + d.Addr + uint64(d.Size)
					sel := GenSel(h, d.Dims)
					so := SelObs{Sel: sel}
					safe(f, p+" ReadHyperslab", func() {
						v, err := o.ReadHyperslab(&hdf5.HyperslabSelection{Start: sel.Start, Count: sel.Count, Stride: sel.Stride, Block: sel.Block})
						if err != nil {
							so.Err = errStr(err)
							return
						}
						bits, ok := toBits(v)
						if !ok {
							so.Err = fmt.Sprintf("result type %T not understood", v)
							return
						}
						so.Bits = bits
						if sel.Slice {
							v2, err := o.ReadSlice(sel.Start, sel.Count)
							if err != nil {
								so.Err = "ReadSlice: " + errStr(err)
								return
							}
							if b2, ok := toBits(v2); !ok || !reflect.DeepEqual(b2, bits) {
								so.Err = "MISMATCH: ReadSlice and ReadHyperslab disagree on the same box"
							}
						}
					})
					d.Sels = append(d.Sels, so)
				}
			}
			if len(opt.SelSeeds) > 0 && d.Layout == 2 && len(d.Dims) > 0 && len(d.ChunkDims) >= len(d.Dims) && NumSelectable(d.Dims) {
				ci := &ChunkIterObs{}
				safe(f, p+" ChunkIterator", func() {
					it, err := o.ChunkIterator()
					if err != nil {
						ci.Err = errStr(err)
						return
					}
					ci.Total = it.Total()
					for it.Next() {
						if len(ci.Coords) >= maxIterChunks {
							break
						}
						cc := append([]uint64{}, it.ChunkCoords()...)
						ci.Coords = append(ci.Coords, cc)
						r := len(d.Dims)
						sel := Sel{Start: make([]uint64, r), Count: make([]uint64, r), Stride: make([]uint64, r), Block: make([]uint64, r), Slice: true}
						inside := len(cc) == r
						for i := 0; i < r && inside; i++ {
							sel.Stride[i], sel.Block[i] = 1, 1
							sel.Start[i] = cc[i] * d.ChunkDims[i]
							if sel.Start[i] >= d.Dims[i] {
								inside = false
								break
							}
							sel.Count[i] = minU(d.ChunkDims[i], d.Dims[i]-sel.Start[i])
						}
						so := SelObs{Sel: sel}
						if !inside {
							so.Err = "outside the current extent"
						} else if v, err := it.Chunk(); err != nil {
							so.Err = errStr(err)
						} else if bits, ok := toBits(v); ok {
							so.Bits = bits
						} else {
							so.Err = fmt.Sprintf("result type %T not understood", v)
						}
						ci.Chunks = append(ci.Chunks, so)
					}
					if err := it.Err(); err != nil {
						ci.Err = errStr(err)
					}
				})
				d.ChunkIter = ci
			}
			d.Attrs, d.AttrsErr = attrsOf(f, p, o.Attributes)
			if _, dup := f.Datasets[p]; dup {
				p = p + "#dup"
				d.Path = p
			}
			f.Datasets[p] = d
		default:
			// named datatypes etc.: recorded in Order and in their parent's children
		}
	}
	return f
}

// Diff returns "" if the two observations are equal, else a description of the first difference.
func Diff(a, b *File) string {
	if a.OpenErr != "" || b.OpenErr != "" {
		if (a.OpenErr == "") != (b.OpenErr == "") {
			return fmt.Sprintf("open: %q vs %q", a.OpenErr, b.OpenErr)
		}
		return ""
	}
	if !reflect.DeepEqual(a.Order, b.Order) {
		return fmt.Sprintf("walk order/paths differ: %v vs %v", a.Order, b.Order)
	}
	for p, ga := range a.Groups {
		gb := b.Groups[p]
		if gb == nil {
			return "group missing: " + p
		}
		if !reflect.DeepEqual(ga, gb) {
			return fmt.Sprintf("group %s differs: %+v vs %+v", p, *ga, *gb)
		}
	}
	for p, da := range a.Datasets {
		db := b.Datasets[p]
		if db == nil {
			return "dataset missing: " + p
		}
		if !reflect.DeepEqual(da, db) {
			return fmt.Sprintf("dataset %s differs: %s", p, diffDataset(da, db))
		}
	}
	if len(a.Panics) != len(b.Panics) {
		return fmt.Sprintf("panics differ: %v vs %v", a.Panics, b.Panics)
	}
	return ""
}

func diffDataset(a, b *Dataset) string {
	va, vb := reflect.ValueOf(*a), reflect.ValueOf(*b)
	for i := 0; i < va.NumField(); i++ {
		if !reflect.DeepEqual(va.Field(i).Interface(), vb.Field(i).Interface()) {
			x, y := fmt.Sprintf("%v", va.Field(i).Interface()), fmt.Sprintf("%v", vb.Field(i).Interface())
			if len(x) > 300 {
				x = x[:300] + "…"
			}
			if len(y) > 300 {
				y = y[:300] + "…"
			}
			return fmt.Sprintf("field %s: %s vs %s", va.Type().Field(i).Name, x, y)
		}
	}
	return "?"
}

// NumSelectable: the extent is small enough for generated partial reads (at most 2^20 elements, none of the dims zero).
func NumSelectable(dims []uint64) bool {
	n := uint64(1)
	for _, d := range dims {
		if d == 0 || d > 1<<20 {
			return false
		}
		n *= d
		if n > 1<<20 {
			return false
		}
	}
	return true
}
