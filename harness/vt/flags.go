package vt

import "flag"

func setFlag(name, val string) {
	if f := flag.Lookup(name); f != nil {
		_ = f.Value.Set(val)
	}
}

func flagSetByUser(name string) bool {
	found := false
	flag.Visit(func(f *flag.Flag) {
		if f.Name == name {
			found = true
		}
	})
	return found
}
