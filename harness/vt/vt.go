// Package vt is the shared verification toolkit: verdicts, the evidence recorder,
// known-finding bookkeeping, replay files and the rapid driver glue.
package vt

import (
	"crypto/sha256"
	"encoding/binary"
	"encoding/json"
	"fmt"
	"os"
	"path/filepath"
	"runtime/debug"
	"sort"
	"strconv"
	"strings"
	"sync"
	"testing"

	"pgregory.net/rapid"
)

// ---------------------------------------------------------------------------------------------
// Verdicts

type Kind int

const (
	OK Kind = iota
	Known
	Violation
	Skip // case outside the property's domain (counted, never a pass)
)

type Verdict struct {
	Kind   Kind
	ID     string // known-finding id for Known
	Detail string
}

func Pass() Verdict { return Verdict{Kind: OK} }
func Bad(format string, a ...any) Verdict {
	return Verdict{Kind: Violation, Detail: fmt.Sprintf(format, a...)}
}
func KnownF(id, format string, a ...any) Verdict {
	return Verdict{Kind: Known, ID: id, Detail: fmt.Sprintf(format, a...)}
}
func Skipped(format string, a ...any) Verdict {
	return Verdict{Kind: Skip, Detail: fmt.Sprintf(format, a...)}
}

// ---------------------------------------------------------------------------------------------
// Environment

type Env struct {
	Tier      string
	Seed      int64
	Shard     int
	NShards   int
	Report    string // path of the shard report (JSON)
	ReplayDir string // where new replay files go
	Replay    string // replay file to run (replay mode)
	Root      string // /verif
	Scratch   string // per-run scratch directory
}

func envInt(name string, def int64) int64 {
	if s := os.Getenv(name); s != "" {
		if v, err := strconv.ParseInt(s, 10, 64); err == nil {
			return v
		}
	}
	return def
}

var (
	envOnce sync.Once
	env     Env
)

func GetEnv() Env {
	envOnce.Do(func() {
		env = Env{
			Tier:      os.Getenv("VERIF_TIER"),
			Seed:      envInt("VERIF_SEED", 1),
			Shard:     int(envInt("VERIF_SHARD", 0)),
			NShards:   int(envInt("VERIF_NSHARDS", 1)),
			Report:    os.Getenv("VERIF_REPORT"),
			ReplayDir: os.Getenv("VERIF_REPLAY_DIR"),
			Replay:    os.Getenv("VERIF_REPLAY"),
			Root:      os.Getenv("VERIF_ROOT"),
			Scratch:   os.Getenv("VERIF_SCRATCH"),
		}
		if env.Tier == "" {
			env.Tier = "quick"
		}
		if env.Root == "" {
			env.Root = "/verif"
		}
		if env.Scratch == "" {
			env.Scratch = filepath.Join(os.TempDir(), fmt.Sprintf("verif-%d", os.Getpid()))
		}
		if env.NShards < 1 {
			env.NShards = 1
		}
		_ = os.MkdirAll(env.Scratch, 0o755)
	})
	return env
}

// Thorough reports whether the thorough tier is running.
func Thorough() bool { return GetEnv().Tier == "thorough" }

// N picks a per-shard budget by tier.
func N(quick, thorough int) int {
	if Thorough() {
		return thorough
	}
	return quick
}

// ShardSeed derives a non-zero seed for this shard and a sub-check name.
func ShardSeed(sub string) uint64 {
	e := GetEnv()
	h := sha256.Sum256([]byte(fmt.Sprintf("%d/%d/%s", e.Seed, e.Shard, sub)))
	s := binary.LittleEndian.Uint64(h[:8]) >> 1
	if s == 0 {
		s = 1
	}
	return s
}

// ---------------------------------------------------------------------------------------------
// Known findings (read-only at run time)

type Finding struct {
	Status   string `json:"status"` // open | fixed
	ID       string `json:"id"`
	Property string `json:"property"`
	What     string `json:"what"`
	Where    string `json:"where,omitempty"`
	Match    string `json:"match,omitempty"`
	Replay   string `json:"replay,omitempty"`
	Commit   string `json:"commit,omitempty"`
}

var (
	kfOnce sync.Once
	kfOpen map[string]Finding
)

func loadFindings() {
	kfOpen = map[string]Finding{}
	files := []string{filepath.Join(GetEnv().Root, "known_findings.json")}
	more, _ := filepath.Glob(filepath.Join(GetEnv().Root, "known.d", "*.json"))
	sort.Strings(more)
	files = append(files, more...)
	for _, fn := range files {
		b, err := os.ReadFile(fn)
		if err != nil {
			continue
		}
		var f struct {
			Findings []Finding `json:"findings"`
		}
		if json.Unmarshal(b, &f) != nil {
			continue
		}
		for _, x := range f.Findings {
			if x.Status == "open" {
				kfOpen[x.ID] = x
			}
		}
	}
}

// IsOpen reports whether a known finding id is listed as open in known_findings.json.
// A matcher for a finding that is not listed never fires: the failure is then a violation.
func IsOpen(id string) bool {
	kfOnce.Do(loadFindings)
	_, ok := kfOpen[id]
	return ok
}

// OpenFindings returns the open findings of a property.
func OpenFindings(prop string) []Finding {
	kfOnce.Do(loadFindings)
	var out []Finding
	for _, f := range kfOpen {
		if f.Property == prop {
			out = append(out, f)
		}
	}
	sort.Slice(out, func(i, j int) bool { return out[i].ID < out[j].ID })
	return out
}

// KnownOr returns Known(id) if the finding is listed open, else a violation.
func KnownOr(id, format string, a ...any) Verdict {
	if IsOpen(id) {
		return KnownF(id, format, a...)
	}
	return Bad("[unlisted "+id+"] "+format, a...)
}

// ---------------------------------------------------------------------------------------------
// Recorder

type knownStat struct {
	Count  int    `json:"count"`
	What   string `json:"what"`
	Sample any    `json:"sample,omitempty"`
}

type violationRec struct {
	Sub    string `json:"sub"`
	Replay string `json:"replay"`
	Detail string `json:"detail"`
}

type Report struct {
	Property    string               `json:"property"`
	Shard       int                  `json:"shard"`
	Evaluations int64                `json:"evaluations"`
	Nontrivial  int64                `json:"nontrivial"` // nontrivial evaluations (not deduplicated)
	HashFile    string               `json:"hash_file,omitempty"`
	DistinctNT  int64                `json:"distinct_nontrivial_direct"` // for enumerations that count distinct cases arithmetically
	Skipped     int64                `json:"skipped"`
	Labels      map[string]int64     `json:"labels"`
	Known       map[string]*knownStat `json:"known"`
	Violations  []violationRec       `json:"violations"`
	Samples     []any                `json:"samples"`
	Subs        map[string]int64     `json:"subs"`
	Exhaustive  map[string]bool      `json:"exhaustive,omitempty"`
	Notes       []string             `json:"notes,omitempty"`
}

type Rec struct {
	mu       sync.Mutex
	prop     string
	rep      Report
	hashes   map[uint64]struct{}
	maxSamp  int
	sampSeen map[string]int
}

var (
	recMu sync.Mutex
	recs  = map[string]*Rec{}
)

// Recorder returns the process-wide recorder of a property.
func Recorder(prop string) *Rec {
	recMu.Lock()
	defer recMu.Unlock()
	if r, ok := recs[prop]; ok {
		return r
	}
	r := &Rec{prop: prop, hashes: map[uint64]struct{}{}, maxSamp: 4, sampSeen: map[string]int{}}
	r.rep = Report{Property: prop, Shard: GetEnv().Shard, Labels: map[string]int64{}, Known: map[string]*knownStat{},
		Subs: map[string]int64{}, Exhaustive: map[string]bool{}}
	recs[prop] = r
	return r
}

func hashCase(sub string, c any) uint64 {
	b, err := json.Marshal(c)
	if err != nil {
		b = []byte(fmt.Sprintf("%#v", c))
	}
	h := sha256.New()
	h.Write([]byte(sub))
	h.Write([]byte{0})
	h.Write(b)
	return binary.LittleEndian.Uint64(h.Sum(nil)[:8])
}

// Case records one generated case.
func (r *Rec) Case(sub string, c any, nontrivial bool, labels ...string) {
	r.mu.Lock()
	defer r.mu.Unlock()
	r.rep.Evaluations++
	r.rep.Subs[sub]++
	for _, l := range labels {
		r.rep.Labels[sub+":"+l]++
	}
	if nontrivial {
		r.rep.Nontrivial++
		r.hashes[hashCase(sub, c)] = struct{}{}
		if r.sampSeen[sub] < r.maxSamp {
			r.sampSeen[sub]++
			r.rep.Samples = append(r.rep.Samples, map[string]any{"sub": sub, "case": c})
		}
	}
}

// Current notes the case that is about to run in <scratch>/current-case.json (a replay file). If the process dies while the
// case runs - a fatal stack overflow or an out-of-memory kill inside the library cannot be recovered - the driver finds the
// case there, re-runs it alone and reports it.
func Current(prop, sub string, c any) {
	curMu.Lock()
	defer curMu.Unlock()
	if curFile == nil {
		if curFailed {
			return
		}
		f, err := os.OpenFile(filepath.Join(GetEnv().Scratch, "current-case.json"), os.O_CREATE|os.O_RDWR|os.O_TRUNC, 0o644)
		if err != nil {
			curFailed = true
			return
		}
		curFile = f
	}
	cb, err := json.Marshal(c)
	if err != nil {
		return
	}
	b, _ := json.Marshal(ReplayFile{Property: prop, Sub: sub, Detail: "the process died while this case was running", Case: cb})
	if _, err := curFile.WriteAt(b, 0); err == nil {
		_ = curFile.Truncate(int64(len(b)))
	}
}

var (
	curMu     sync.Mutex
	curFile   *os.File
	curFailed bool
)

// Bulk records an arithmetic enumeration: n evaluations of which nt are distinct and non-trivial.
func (r *Rec) Bulk(sub string, n, nt int64, labels map[string]int64) {
	r.mu.Lock()
	defer r.mu.Unlock()
	r.rep.Evaluations += n
	r.rep.Subs[sub] += n
	r.rep.Nontrivial += nt
	r.rep.DistinctNT += nt
	for l, c := range labels {
		r.rep.Labels[sub+":"+l] += c
	}
}

func (r *Rec) Sample(sub string, c any) {
	r.mu.Lock()
	defer r.mu.Unlock()
	if r.sampSeen[sub] < r.maxSamp {
		r.sampSeen[sub]++
		r.rep.Samples = append(r.rep.Samples, map[string]any{"sub": sub, "case": c})
	}
}

func (r *Rec) Label(sub, l string, n int64) {
	r.mu.Lock()
	defer r.mu.Unlock()
	r.rep.Labels[sub+":"+l] += n
}

func (r *Rec) Note(format string, a ...any) {
	r.mu.Lock()
	defer r.mu.Unlock()
	r.rep.Notes = append(r.rep.Notes, fmt.Sprintf(format, a...))
}

func (r *Rec) SetExhaustive(sub string, v bool) {
	r.mu.Lock()
	defer r.mu.Unlock()
	r.rep.Exhaustive[sub] = v
}

func (r *Rec) SkipCase() {
	r.mu.Lock()
	defer r.mu.Unlock()
	r.rep.Skipped++
}

// KnownHit records a case that fell in an open known finding.
func (r *Rec) KnownHit(id, what string, c any) {
	r.mu.Lock()
	defer r.mu.Unlock()
	k := r.rep.Known[id]
	if k == nil {
		k = &knownStat{What: what, Sample: c}
		r.rep.Known[id] = k
	}
	k.Count++
}

type ReplayFile struct {
	Property string          `json:"property"`
	Sub      string          `json:"sub"`
	Detail   string          `json:"detail,omitempty"`
	Case     json.RawMessage `json:"case"`
}

// SaveViolation writes the replay file for a failing case (overwriting the previous one of the same
// sub-check in this shard, so that after shrinking the file holds the minimal case).
func (r *Rec) SaveViolation(sub string, c any, detail string) string {
	r.mu.Lock()
	defer r.mu.Unlock()
	e := GetEnv()
	dir := e.ReplayDir
	if dir == "" {
		dir = filepath.Join(e.Root, "replays", "found")
	}
	_ = os.MkdirAll(dir, 0o755)
	name := fmt.Sprintf("%s-%s-seed%d-shard%d.json", r.prop, sanitize(sub), e.Seed, e.Shard)
	p := filepath.Join(dir, name)
	cb, _ := json.Marshal(c)
	b, _ := json.MarshalIndent(ReplayFile{Property: r.prop, Sub: sub, Detail: detail, Case: cb}, "", " ")
	_ = os.WriteFile(p, b, 0o644)
	found := false
	for i := range r.rep.Violations {
		if r.rep.Violations[i].Replay == p {
			r.rep.Violations[i].Detail = detail
			found = true
		}
	}
	if !found {
		r.rep.Violations = append(r.rep.Violations, violationRec{Sub: sub, Replay: p, Detail: detail})
	}
	return p
}

func sanitize(s string) string {
	return strings.Map(func(r rune) rune {
		if r >= 'a' && r <= 'z' || r >= 'A' && r <= 'Z' || r >= '0' && r <= '9' || r == '-' || r == '_' {
			return r
		}
		return '_'
	}, s)
}

// Flush writes the shard report (and the hash side file).
func (r *Rec) Flush() {
	r.mu.Lock()
	defer r.mu.Unlock()
	e := GetEnv()
	if e.Report == "" {
		return
	}
	hf := e.Report + ".hashes"
	buf := make([]byte, 0, 8*len(r.hashes))
	for h := range r.hashes {
		buf = binary.LittleEndian.AppendUint64(buf, h)
	}
	_ = os.WriteFile(hf, buf, 0o644)
	r.rep.HashFile = hf
	b, _ := json.Marshal(r.rep)
	_ = os.WriteFile(e.Report, b, 0o644)
}

// ---------------------------------------------------------------------------------------------
// Sub-checks driven by rapid

// Sub is one generated sub-check of a property.
type Sub[C any] struct {
	Prop     string
	Name     string
	Gen      func(t *rapid.T) C
	Run      func(c C) Verdict
	Classify func(c C) (nontrivial bool, labels []string)
}

// SafeRun runs f converting a panic into a violation verdict.
func SafeRun[C any](run func(C) Verdict, c C) (v Verdict) {
	defer func() {
		if p := recover(); p != nil {
			v = Bad("panic in check body: %v\n%s", p, trimStack(debug.Stack()))
		}
	}()
	return run(c)
}

func trimStack(b []byte) string {
	s := string(b)
	if len(s) > 3000 {
		s = s[:3000]
	}
	return s
}

type subRunner interface {
	name() string
	replay(t *testing.T, raw json.RawMessage) Verdict
}

var registry = map[string]subRunner{}

func (s Sub[C]) name() string { return s.Name }
func (s Sub[C]) replay(t *testing.T, raw json.RawMessage) Verdict {
	var c C
	if err := json.Unmarshal(raw, &c); err != nil {
		return Bad("cannot decode replay case: %v", err)
	}
	return SafeRun(s.Run, c)
}

// Check runs the sub-check for `checks` generated cases (per shard) under rapid.
// It must be called from a test function whose binary was started by ./check.
func (s Sub[C]) Check(t *testing.T, checks int) {
	registry[s.Name] = s
	if GetEnv().Replay != "" {
		return
	}
	rec := Recorder(s.Prop)
	defer rec.Flush()
	failed := false
	var lastDetail string
	prop := func(rt *rapid.T) {
		c := s.Gen(rt)
		if !failed {
			nt, labels := false, []string(nil)
			if s.Classify != nil {
				nt, labels = s.Classify(c)
			}
			rec.Case(s.Name, c, nt, labels...)
		}
		Current(s.Prop, s.Name, c)
		v := SafeRun(s.Run, c)
		switch v.Kind {
		case OK:
		case Skip:
			if !failed {
				rec.SkipCase()
			}
		case Known:
			if !failed {
				rec.KnownHit(v.ID, v.Detail, c)
			}
		case Violation:
			failed = true
			lastDetail = v.Detail
			rec.SaveViolation(s.Name, c, v.Detail)
			rt.Fatalf("violation: %s", v.Detail)
		}
	}
	// rapid reads its flags from the command line; we set them programmatically for determinism.
	setFlag("rapid.checks", strconv.Itoa(checks))
	setFlag("rapid.seed", strconv.FormatUint(ShardSeed(s.Name), 10))
	setFlag("rapid.nofailfile", "true")
	if !flagSetByUser("rapid.shrinktime") {
		setFlag("rapid.shrinktime", NStr("20s", "60s"))
	}
	t.Run(s.Name, func(t *testing.T) {
		rapid.Check(t, prop)
	})
	_ = lastDetail
}

// NStr is N for strings.
func NStr(q, th string) string {
	if Thorough() {
		return th
	}
	return q
}

// Replay runs the replay file named by VERIF_REPLAY against the registered sub-checks.
// Returns true when in replay mode.
func Replay(t *testing.T, prop string) bool {
	e := GetEnv()
	if e.Replay == "" {
		return false
	}
	b, err := os.ReadFile(e.Replay)
	if err != nil {
		t.Fatalf("replay: %v", err)
	}
	var rf ReplayFile
	if err := json.Unmarshal(b, &rf); err != nil {
		t.Fatalf("replay: %v", err)
	}
	s, ok := registry[rf.Sub]
	if !ok {
		t.Fatalf("replay: unknown sub-check %q", rf.Sub)
	}
	v := s.replay(t, rf.Case)
	switch v.Kind {
	case Violation:
		fmt.Printf("REPLAY-VIOLATION property=%s sub=%s detail=%s\n", prop, rf.Sub, oneLine(v.Detail))
		t.Fail()
	case Known:
		fmt.Printf("REPLAY-KNOWN property=%s %s %s\n", prop, v.ID, oneLine(v.Detail))
	default:
		fmt.Printf("REPLAY-OK property=%s sub=%s\n", prop, rf.Sub)
	}
	return true
}

func oneLine(s string) string {
	s = strings.ReplaceAll(s, "\n", " | ")
	if len(s) > 600 {
		s = s[:600] + "…"
	}
	return s
}

// Enumerated sub-checks (no rapid): helper to report a violation from plain test code.
func ReportViolation(prop, sub string, c any, detail string) string {
	rec := Recorder(prop)
	p := rec.SaveViolationNamed(sub, c, detail)
	return p
}

// SaveViolationNamed is SaveViolation with a unique file per distinct case (for enumerations).
func (r *Rec) SaveViolationNamed(sub string, c any, detail string) string {
	r.mu.Lock()
	e := GetEnv()
	dir := e.ReplayDir
	if dir == "" {
		dir = filepath.Join(e.Root, "replays", "found")
	}
	_ = os.MkdirAll(dir, 0o755)
	name := fmt.Sprintf("%s-%s-%016x.json", r.prop, sanitize(sub), hashCase(sub, c))
	p := filepath.Join(dir, name)
	cb, _ := json.Marshal(c)
	b, _ := json.MarshalIndent(ReplayFile{Property: r.prop, Sub: sub, Detail: detail, Case: cb}, "", " ")
	_ = os.WriteFile(p, b, 0o644)
	if len(r.rep.Violations) < 50 {
		r.rep.Violations = append(r.rep.Violations, violationRec{Sub: sub, Replay: p, Detail: detail})
	}
	r.mu.Unlock()
	return p
}

// Register makes a plain (non-rapid) sub-check replayable.
type Plain[C any] struct {
	Name string
	Run  func(c C) Verdict
}

func (p Plain[C]) name() string { return p.Name }
func (p Plain[C]) replay(t *testing.T, raw json.RawMessage) Verdict {
	var c C
	if err := json.Unmarshal(raw, &c); err != nil {
		return Bad("cannot decode replay case: %v", err)
	}
	return SafeRun(p.Run, c)
}
func RegisterPlain[C any](p Plain[C]) { registry[p.Name] = p }

// ---------------------------------------------------------------------------------------------
// Orchestration

// Runner is anything Run can drive: Sub[C] (rapid) or Func (plain enumeration).
type Runner interface {
	name() string
	replay(t *testing.T, raw json.RawMessage) Verdict
	run(t *testing.T)
}

func (s Sub[C]) run(t *testing.T) { s.Check(t, s.Checks()) }

// Budget is the per-shard number of cases; set through WithBudget.
type budget struct{ q, th int }

var budgets = map[string]budget{}

func (s Sub[C]) Checks() int {
	b, ok := budgets[s.Name]
	if !ok {
		return N(100, 1000)
	}
	return N(b.q, b.th)
}

// WithBudget sets per-shard case counts for the quick and thorough tiers.
func (s Sub[C]) WithBudget(quick, thorough int) Sub[C] {
	budgets[s.Name] = budget{quick, thorough}
	return s
}

// Func is a plain enumerated sub-check with a replayable case type.
type Func[C any] struct {
	Name string
	Body func(t *testing.T) // enumeration; reports through Recorder + ReportViolation
	One  func(c C) Verdict  // replay of one saved case
}

func (f Func[C]) name() string { return f.Name }
func (f Func[C]) replay(t *testing.T, raw json.RawMessage) Verdict {
	var c C
	if err := json.Unmarshal(raw, &c); err != nil {
		return Bad("cannot decode replay case: %v", err)
	}
	return SafeRun(f.One, c)
}
func (f Func[C]) run(t *testing.T) { t.Run(f.Name, f.Body) }

// Run is the body of every TestProp.
func Run(t *testing.T, prop string, runners ...Runner) {
	e := GetEnv()
	for _, r := range runners {
		registry[r.name()] = r
	}
	if e.Replay != "" {
		Replay(t, prop)
		return
	}
	if os.Getenv("VERIF_KF") == "1" {
		for _, f := range OpenFindings(prop) {
			if f.Replay == "" {
				continue
			}
			p := f.Replay
			if !filepath.IsAbs(p) {
				p = filepath.Join(e.Root, p)
			}
			b, err := os.ReadFile(p)
			if err != nil {
				fmt.Printf("KF-RESULT %s missing %v\n", f.ID, err)
				continue
			}
			var rf ReplayFile
			if err := json.Unmarshal(b, &rf); err != nil {
				fmt.Printf("KF-RESULT %s missing %v\n", f.ID, err)
				continue
			}
			s, ok := registry[rf.Sub]
			if !ok {
				fmt.Printf("KF-RESULT %s missing unknown sub %s\n", f.ID, rf.Sub)
				continue
			}
			v := s.replay(t, rf.Case)
			switch {
			case v.Kind == Known && v.ID == f.ID:
				fmt.Printf("KF-RESULT %s known %s\n", f.ID, oneLine(f.What))
			case v.Kind == Known:
				fmt.Printf("KF-RESULT %s known-other %s\n", f.ID, v.ID)
			case v.Kind == Violation:
				fmt.Printf("KF-RESULT %s violation %s\n", f.ID, oneLine(v.Detail))
			default:
				fmt.Printf("KF-RESULT %s stale\n", f.ID)
			}
		}
		return
	}
	rec := Recorder(prop)
	defer rec.Flush()
	only := os.Getenv("VERIF_ONLY")
	for _, r := range runners {
		if only != "" && !strings.Contains(r.name(), only) {
			continue
		}
		r.run(t)
	}
}
