// Package refimpl holds independent re-implementations, written from the published definitions
// (not from /repo), of the checksums and hashes the HDF5 format uses.
package refimpl

func rot(x uint32, k uint) uint32 { return x<<k | x>>(32-k) }

// Lookup3 is Bob Jenkins' hashlittle() (lookup3.c, May 2006) — the HDF5 "Jenkins lookup3" checksum
// and link/attribute name hash (H5_checksum_lookup3) with the given initial value.
func Lookup3(k []byte, initval uint32) uint32 {
	n := len(k)
	a := 0xdeadbeef + uint32(n) + initval
	b, c := a, a
	for n > 12 {
		a += uint32(k[0]) | uint32(k[1])<<8 | uint32(k[2])<<16 | uint32(k[3])<<24
		b += uint32(k[4]) | uint32(k[5])<<8 | uint32(k[6])<<16 | uint32(k[7])<<24
		c += uint32(k[8]) | uint32(k[9])<<8 | uint32(k[10])<<16 | uint32(k[11])<<24
		// mix(a,b,c)
		a -= c
		a ^= rot(c, 4)
		c += b
		b -= a
		b ^= rot(a, 6)
		a += c
		c -= b
		c ^= rot(b, 8)
		b += a
		a -= c
		a ^= rot(c, 16)
		c += b
		b -= a
		b ^= rot(a, 19)
		a += c
		c -= b
		c ^= rot(b, 4)
		b += a
		k = k[12:]
		n -= 12
	}
	if n == 0 {
		return c
	}
	// last block: affect all 32 bits of (c); bytes beyond the end count as zero
	var t [12]byte
	copy(t[:], k[:n])
	a += uint32(t[0]) | uint32(t[1])<<8 | uint32(t[2])<<16 | uint32(t[3])<<24
	b += uint32(t[4]) | uint32(t[5])<<8 | uint32(t[6])<<16 | uint32(t[7])<<24
	c += uint32(t[8]) | uint32(t[9])<<8 | uint32(t[10])<<16 | uint32(t[11])<<24
	// final(a,b,c)
	c ^= b
	c -= rot(b, 14)
	a ^= c
	a -= rot(c, 11)
	b ^= a
	b -= rot(a, 25)
	c ^= b
	c -= rot(b, 16)
	a ^= c
	a -= rot(c, 4)
	b ^= a
	b -= rot(a, 14)
	c ^= b
	c -= rot(b, 24)
	return c
}

// Fletcher32HDF5 is H5_checksum_fletcher32: 16-bit big-endian words, odd trailing byte in the high half.
func Fletcher32HDF5(data []byte) uint32 {
	var s1, s2 uint32
	n := len(data) / 2
	i := 0
	for n > 0 {
		t := n
		if t > 360 {
			t = 360
		}
		n -= t
		for ; t > 0; t-- {
			s1 += uint32(data[i])<<8 | uint32(data[i+1])
			s2 += s1
			i += 2
		}
		s1 = (s1 & 0xffff) + (s1 >> 16)
		s2 = (s2 & 0xffff) + (s2 >> 16)
	}
	if len(data)%2 == 1 {
		s1 += uint32(data[i]) << 8
		s2 += s1
		s1 = (s1 & 0xffff) + (s1 >> 16)
		s2 = (s2 & 0xffff) + (s2 >> 16)
	}
	s1 = (s1 & 0xffff) + (s1 >> 16)
	s2 = (s2 & 0xffff) + (s2 >> 16)
	return s2<<16 | s1
}
