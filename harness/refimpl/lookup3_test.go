package refimpl

import "testing"

func TestLookup3Vectors(t *testing.T) {
	// self-test vectors from lookup3.c driver5()
	if h := Lookup3([]byte("Four score and seven years ago"), 0); h != 0x17770551 {
		t.Fatalf("got %#x", h)
	}
	if h := Lookup3([]byte("Four score and seven years ago"), 1); h != 0xcd628161 {
		t.Fatalf("got %#x", h)
	}
	if h := Lookup3(nil, 0); h != 0xdeadbeef {
		t.Fatalf("empty: got %#x", h)
	}
}
