// Package c13 decides property C13: resize keeps retained data, zero-fills new space and respects the declared maximum.
package c13

import (
	"fmt"
	"os"
	"path/filepath"
	"strings"
	"testing"

	hdf5 "github.com/scigolib/hdf5"
	"github.com/scigolib/hdf5/verif/hist"
	"github.com/scigolib/hdf5/verif/obs"
	"github.com/scigolib/hdf5/verif/vt"
	"pgregory.net/rapid"
)

const prop = "C13"
const kfShrink = "KF-C13-01"

type Step struct {
	K    string   `json:"k"` // resize write attr delattr link
	Dims []uint64 `json:"dims,omitempty"`
	Seed int      `json:"seed,omitempty"`
	Zero bool     `json:"zero,omitempty"` // write: every element zero (the caller clears the dataset)
}

type Case struct {
	SB    int        `json:"sb"`
	D     hist.DSpec `json:"d"`
	Steps []Step     `json:"steps"`
	After bool       `json:"after"` // another dataset is created after the resizable one
}

func gen(t *rapid.T) Case {
	c := Case{SB: rapid.SampledFrom([]int{2, 2, 0, 3}).Draw(t, "sb"), After: rapid.Bool().Draw(t, "after")}
	rank := rapid.SampledFrom([]int{1, 1, 2, 2, 3}).Draw(t, "rank")
	c.D.Type = rapid.SampledFrom([]string{"i32", "f64", "i64", "u32", "f32", "u8", "i16", "i32", "f64", "arr:i32", "arr:f64", "arr:u8", "str"}).Draw(t, "type")
	switch {
	case strings.HasPrefix(c.D.Type, "arr:"):
		// one element is a whole array: sizes derived from the base type instead of the element are wrong by this factor
		c.D.ArrDims = rapid.SliceOfN(rapid.SampledFrom([]uint64{1, 2, 3}), 1, 2).Draw(t, "arrdims")
	case c.D.Type == "str":
		c.D.StrSize = rapid.SampledFrom([]int{1, 5, 8}).Draw(t, "strsize")
	}
	maxExt := []int{24, 9, 5}[rank-1]
	// two shapes no small extent reaches: more chunks than one byte counts, and chunks of 64 KiB and more
	special := rapid.SampledFrom([]string{"", "", "", "", "", "", "", "", "", "", "", "", "", "", "", "", "", "", "", "", "", "", "manychunks", "bigchunk"}).Draw(t, "special")
	switch special {
	case "manychunks":
		rank, maxExt = 1, 640
	case "bigchunk":
		rank, maxExt = 1, 3
		c.D.Type, c.D.ArrDims, c.D.StrSize = "arr:f64", []uint64{rapid.SampledFrom([]uint64{8192, 8200, 12288}).Draw(t, "bigElem")}, 0
	}
	for i := 0; i < rank; i++ {
		e := uint64(rapid.IntRange(1, maxExt).Draw(t, "extent"))
		if special == "manychunks" {
			e = uint64(rapid.IntRange(250, maxExt).Draw(t, "manyExtent"))
		}
		c.D.Dims = append(c.D.Dims, e)
		if special == "manychunks" {
			c.D.Chunk = append(c.D.Chunk, uint64(rapid.IntRange(1, 2).Draw(t, "smallChunk")))
			c.D.MaxDims = append(c.D.MaxDims, hdf5.Unlimited)
			continue
		}
		c.D.Chunk = append(c.D.Chunk, uint64(rapid.IntRange(1, int(e)).Draw(t, "chunk")))
		switch rapid.IntRange(0, 2).Draw(t, "maxkind") {
		case 0:
			c.D.MaxDims = append(c.D.MaxDims, hdf5.Unlimited)
		case 1:
			c.D.MaxDims = append(c.D.MaxDims, e+uint64(rapid.IntRange(0, maxExt).Draw(t, "headroom")))
		default:
			c.D.MaxDims = append(c.D.MaxDims, e)
		}
	}
	n := rapid.IntRange(1, 12).Draw(t, "nsteps")
	cur := append([]uint64{}, c.D.Dims...)
	for i := 0; i < n; i++ {
		switch rapid.IntRange(0, 8).Draw(t, "isWrite") {
		case 0, 1, 2:
			c.Steps = append(c.Steps, Step{K: "write", Seed: rapid.IntRange(0, 9999).Draw(t, "seed"), Zero: rapid.IntRange(0, 4).Draw(t, "zeros") == 0})
			continue
		case 3:
			// other operations on the same object between resizes and writes (they rewrite its header)
			c.Steps = append(c.Steps, Step{K: "attr", Seed: rapid.IntRange(0, 5).Draw(t, "aname")})
			continue
		case 4:
			if rapid.Bool().Draw(t, "linkOrDel") {
				c.Steps = append(c.Steps, Step{K: "link"})
			} else {
				c.Steps = append(c.Steps, Step{K: "delattr", Seed: rapid.IntRange(0, 5).Draw(t, "aname")})
			}
			continue
		}
		dims := make([]uint64, rank)
		switch rapid.SampledFrom([]string{"ok", "ok", "ok", "ok", "ok", "ok", "ok", "ok", "beyond", "beyond", "rank", "rank", "zero", "zero", "same", "same", "huge"}).Draw(t, "rk") {
		case "huge":
			// an extent that needs more than 32 bits along an unlimited dimension (declared only; a later resize brings it back)
			copy(dims, cur)
			d := rapid.IntRange(0, rank-1).Draw(t, "dim")
			if c.D.MaxDims[d] == hdf5.Unlimited && !hist.HugeExtent(cur) {
				dims[d] = rapid.SampledFrom([]uint64{1<<32 + 7, 1 << 32, 1 << 33, 1<<40 + 1, 1<<32 - 1}).Draw(t, "hugeExtent")
			}
		case "ok":
			for d := range dims {
				hi := uint64(maxExt + 3)
				if special == "manychunks" {
					hi = uint64(maxExt + 40)
				}
				if c.D.MaxDims[d] != hdf5.Unlimited && c.D.MaxDims[d] < hi {
					hi = c.D.MaxDims[d]
				}
				dims[d] = uint64(rapid.IntRange(1, int(hi)).Draw(t, "newExtent"))
			}
		case "beyond":
			copy(dims, cur)
			d := rapid.IntRange(0, rank-1).Draw(t, "dim")
			if c.D.MaxDims[d] == hdf5.Unlimited {
				dims[d] = cur[d] + 1
			} else {
				dims[d] = c.D.MaxDims[d] + uint64(rapid.IntRange(1, 3).Draw(t, "over"))
			}
		case "rank":
			dims = append(dims, 1)
			copy(dims, cur)
		case "zero":
			copy(dims, cur)
			dims[rapid.IntRange(0, rank-1).Draw(t, "dim")] = 0
		default:
			copy(dims, cur)
		}
		c.Steps = append(c.Steps, Step{K: "resize", Dims: dims})
		ok := len(dims) == rank
		for d := 0; ok && d < rank; d++ {
			if dims[d] == 0 || (c.D.MaxDims[d] != hdf5.Unlimited && dims[d] > c.D.MaxDims[d]) {
				ok = false
			}
		}
		if ok {
			cur = dims
		}
	}
	return c
}

// analyse walks the case the way the model would and reports class labels.
func analyse(c Case) (shrinkWithoutRewrite, crossChunk, gwsg bool, accepted int) {
	rank := len(c.D.Dims)
	cur := append([]uint64{}, c.D.Dims...)
	written := false
	pendingShrink := false
	seq := ""
	for _, s := range c.Steps {
		switch s.K {
		case "write":
			written = true
			pendingShrink = false
			seq += "w"
		case "resize":
			ok := len(s.Dims) == rank
			for d := 0; ok && d < rank; d++ {
				if s.Dims[d] == 0 || (c.D.MaxDims[d] != hdf5.Unlimited && s.Dims[d] > c.D.MaxDims[d]) {
					ok = false
				}
			}
			if !ok {
				continue
			}
			accepted++
			shrunk, grown := false, false
			for d := 0; d < rank; d++ {
				if s.Dims[d] < cur[d] {
					shrunk = true
					if (s.Dims[d]+c.D.Chunk[d]-1)/c.D.Chunk[d] < (cur[d]+c.D.Chunk[d]-1)/c.D.Chunk[d] {
						crossChunk = true
					}
				}
				if s.Dims[d] > cur[d] {
					grown = true
				}
			}
			if shrunk && written {
				pendingShrink = true
				seq += "s"
			} else if grown {
				seq += "g"
			}
			cur = s.Dims
		}
	}
	// grow -> write -> shrink -> grow somewhere in the accepted sequence
	state := 0
	for _, ch := range seq {
		switch {
		case state == 0 && ch == 'g':
			state = 1
		case state == 1 && ch == 'w':
			state = 2
		case state == 2 && ch == 's':
			state = 3
		case state == 3 && ch == 'g':
			state = 4
		}
	}
	return pendingShrink, crossChunk, state == 4, accepted
}

func classify(c Case) (bool, []string) {
	swr, cross, gwsg, acc := analyse(c)
	labels := []string{fmt.Sprintf("rank=%d", len(c.D.Dims)), fmt.Sprintf("sb=%d", c.SB)}
	if swr {
		labels = append(labels, "shrink_without_rewrite")
	}
	if cross {
		labels = append(labels, "shrink_across_chunk_boundary")
	}
	if gwsg {
		labels = append(labels, "grow_write_shrink_grow")
	}
	if acc > 0 {
		labels = append(labels, "has_accepted_resize")
	}
	nonzero := false
	for _, st := range c.Steps {
		switch {
		case st.K == "write" && !st.Zero:
			nonzero = true
		case st.K == "write" && st.Zero && nonzero:
			labels = append(labels, "cleared_after_data")
			nonzero = false
		case st.K == "resize":
			for _, x := range st.Dims {
				if x >= 1<<32-1 && x != hdf5.Unlimited {
					labels = append(labels, "extent_beyond_32_bits")
					break
				}
			}
		}
	}
	return cross || gwsg || acc >= 2, labels
}

func run(c Case) vt.Verdict {
	if !c.D.Valid() || c.D.Chunk == nil || c.D.MaxDims == nil {
		return vt.Skipped("not a resizable spec")
	}
	file := filepath.Join(vt.GetEnv().Scratch, fmt.Sprintf("c13-%d.h5", os.Getpid()))
	defer os.Remove(file)
	ex, err := hist.NewExec(file, c.SB)
	if err != nil {
		return vt.Bad("CreateForWrite: %v", err)
	}
	defer ex.Close()
	if st := ex.Apply(hist.Op{K: "dataset", Path: "/r", D: &c.D}); st.Err != "" || st.Broken != "" {
		return vt.Bad("creating the resizable dataset %+v failed: %s%s", c.D, st.Err, st.Broken)
	}
	if c.After {
		ex.Apply(hist.Op{K: "dataset", Path: "/z", D: &hist.DSpec{Type: "i32", Dims: []uint64{3}}})
		ex.Apply(hist.Op{K: "write", Path: "/z", Seed: 7, Mode: hist.ModeSeq})
	}
	// everWritten: stale chunks can only exist once data has been written
	staleRisk := false // an accepted shrink happened after a write (open finding region: stale chunks stay indexed)
	written := false
	for i, s := range c.Steps {
		var st hist.Step
		switch s.K {
		case "write":
			mode := hist.ModeSeq
			if s.Zero {
				mode = hist.ModeZero
			}
			if hist.HugeExtent(ex.M.Resolve("/r").Dims) {
				continue // a full write of a declared-only extent is not part of the domain
			}
			st = ex.Apply(hist.Op{K: "write", Path: "/r", Seed: s.Seed, Mode: mode})
			if st.Err == "" {
				written = true
				staleRisk = false // a full write re-creates the index for the current shape
			} else if st.Broken == "" {
				return vt.Bad("step %d: full write at shape %v rejected: %s", i, ex.M.Resolve("/r").Dims, st.Err)
			}
		case "resize":
			nhuge := 0
			for _, x := range s.Dims {
				if x >= 1<<31 {
					nhuge++
				}
			}
			if nhuge > 1 {
				return vt.Skipped("more than one dimension beyond 31 bits: the element count leaves 64 bits")
			}
			before := append([]uint64{}, ex.M.Resolve("/r").Dims...)
			st = ex.Apply(hist.Op{K: "resize", Path: "/r", Dims: s.Dims})
			if st.Err == "" && written {
				for d := range before {
					if d < len(s.Dims) && s.Dims[d] < before[d] {
						staleRisk = true
					}
				}
			}
		case "attr":
			st = ex.Apply(hist.Op{K: "attr", Path: "/r", Name: fmt.Sprintf("a%d", s.Seed), A: &hist.AttrVal{Kind: []string{"i32", "str", "f64"}[(s.Seed+i)%3], N: 9, Seed: s.Seed + i}})
		case "delattr":
			st = ex.Apply(hist.Op{K: "delattr", Path: "/r", Name: fmt.Sprintf("a%d", s.Seed)})
		case "link":
			st = ex.Apply(hist.Op{K: "hard", Path: fmt.Sprintf("/link%d", i), Target: "/r"})
		default:
			return vt.Skipped("unknown step")
		}
		if st.Broken != "" {
			return vt.Bad("step %d %s %v: %s", i, s.K, s.Dims, st.Broken)
		}
	}
	if err := ex.Close(); err != nil {
		return vt.Bad("Close: %v", err)
	}
	f := obs.Read(file, obs.Options{SelSeeds: []uint64{11, 22, 33, 44}})
	ps := hist.Compare(ex.M, f, hist.Opts{RefCount: true})
	for _, p := range ps {
		if r := ex.M.Resolve("/r"); staleRisk && r != nil && ex.M.Resolve(p.Path) == r && staleExplains(p, r, f.Datasets[p.Path]) {
			return vt.KnownOr(kfShrink, "%s", p)
		}
		return vt.Bad("%d problem(s) after reopen, first: %s (spec %+v)", len(ps), p, c.D)
	}
	// the stored bytes as an independent decoder sees them (element types without a typed read, chunk index consistency);
	// after a shrink that left stale chunks behind (open finding) the index is known to hold chunks outside the extent
	if !staleRisk {
		if data, err := os.ReadFile(file); err == nil {
			res := hist.CompareIndep(ex.M, data)
			if res.DecodeErr != "" {
				return vt.Bad("independent decoder cannot decode the written file: %s (spec %+v)", res.DecodeErr, c.D)
			}
			for _, p := range res.Problems {
				if p.Kind == "indep-refcount" {
					continue
				}
				return vt.Bad("independent decoder disagrees with the model: %s (spec %+v)", p, c.D)
			}
		}
	}
	return vt.Pass()
}

// staleExplains: the problem is what chunks left in the index by a shrink (the open finding) produce - the reader refuses a
// chunk that lies beyond the extent, or values from before the shrink show up where the model has zero fill. A wrong value
// where the model holds retained or rewritten data is not explained by it.
func staleExplains(p hist.Problem, o *hist.Obj, d *obs.Dataset) bool {
	if o == nil || d == nil {
		return false
	}
	switch p.Kind {
	case "read-error", "strings-error":
		return strings.Contains(p.Detail, "beyond the dataset extent") || strings.Contains(p.Detail, "chunk data truncated")
	case "read-values", "partial-read-values":
		want, ok := o.Spec.ExpectedRead(o.Raw)
		if !ok || d.ReadErr != "" || len(d.Read) != len(want) {
			return false
		}
		stale := 0
		for i := range want {
			if d.Read[i] != want[i] {
				if want[i] != 0 {
					return false
				}
				stale++
			}
		}
		return stale > 0 // a partial read that disagrees while the full read is right has another cause
	case "strings-values":
		want, ok := o.Spec.ExpectedStrings(o.Raw)
		if !ok || d.StringsErr != "" || len(d.Strings) != len(want) {
			return false
		}
		for i := range want {
			if d.Strings[i] != want[i] && want[i] != "" {
				return false
			}
		}
		return true
	}
	return false
}

func TestProp(t *testing.T) {
	vt.Run(t, prop, vt.Sub[Case]{Prop: prop, Name: "history", Gen: gen, Run: run, Classify: classify}.WithBudget(8000, 40000))
}
