#!/usr/bin/env python3
"""Regenerates MANIFEST.json from props.json (claimed checks) and the list of all property ids."""
import json, os
ROOT = os.path.dirname(os.path.abspath(__file__))
props = {fn[:-5]: json.load(open(os.path.join(ROOT, "props.d", fn))) for fn in sorted(os.listdir(os.path.join(ROOT, "props.d"))) if fn.endswith(".json")}
ids = [json.loads(l)["id"] for l in open(os.path.join(ROOT, "properties.jsonl")) if l.strip()]
na_reasons = {}
p = os.path.join(ROOT, "not_applicable.json")
if os.path.exists(p):
    na_reasons = json.load(open(p))
claimed = set(open(os.path.join(ROOT, "claimed.txt")).read().split())
checks, na = [], []
for i in ids:
    c = props.get(i)
    if not c or c.get("disabled") or i not in claimed:
        na.append({"property_id": i, "reason": na_reasons.get(i, "check not built yet in this session (see DESIGN.md section 5 for the planned PBT design)")})
        continue
    checks.append({
        "property_id": i,
        "quick_cmd": "./check %s quick" % i,
        "thorough_cmd": "./check %s thorough" % i,
        "evidence_file": "/verif/evidence/%s.json" % i,
        "replay_cmd_template": "./check %s --replay {path}" % i,
        "engine": "harness",
        "level_claimed": {"category": c["level"], "text": c["level_text"], "design_ref": "DESIGN.md section 5, " + i},
        "level_note": c["level_note"],
        "technique": c["technique"],
    })
m = {
    "version": 1,
    "setup_cmd": "./setup.sh",
    "hooks": {
        "guard": "verif",
        "enable": "go test -tags verif (every ./check build passes -tags verif)",
        "baseline_off_cmd": "cd /repo && env -u GOSUMDB GOFLAGS=-mod=mod GOPROXY=off go test -vet=off -count=1 -timeout 25m ./...",
        "source_commits": json.load(open(os.path.join(ROOT, "hooks.json"))) if os.path.exists(os.path.join(ROOT, "hooks.json")) else [],
        "add_only": True,
    },
    "engines": [{"name": "harness", "path": "/verif/harness", "serves_properties": [c["property_id"] for c in checks],
                 "kind_free_text": "Go module github.com/scigolib/hdf5/verif (replace => /repo): pgregory.net/rapid v1.3.0 generators + explicit oracles (reference models, independent re-implementations, round trips), enumerations for finite domains; driven by ./check, which rebuilds against the current /repo tree, shards by VERIF_SEED and merges measured coverage into evidence/"}],
    "checks": checks,
    "not_applicable": na,
    "notes": "Exit codes: 0 held, 1 VIOLATION, 2 INCONCLUSIVE (infrastructure: build failure, timeout, non-vacuity floor). Known findings: known_findings.json (read-only at run time). Seeded changes used to validate the checks: seeded/.",
}
json.dump(m, open(os.path.join(ROOT, "MANIFEST.json"), "w"), indent=1)
print("claimed:", [c["property_id"] for c in checks]); print("not_applicable:", [x["property_id"] for x in na])
